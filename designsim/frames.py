"""Frame specifications: a JSON-able description of a pandas DataFrame and the
deterministic builder that turns it into a real frame.

A spec is ``{"cols": [[name, kind, values, extra], ...], "index": [...]}``
with kind in {"float", "int", "str", "cat"}.  ``None`` stands for a missing
value.  For "cat", extra = {"categories": [...], "ordered": bool}.
The same builder is used by the simulated world, the fresh-process reference
and the replayer, so a spec always denotes the same frame.
"""
import hashlib
import json

import numpy as np
import pandas as pd


def build_frame(spec):
    data = {}
    for name, kind, values, extra in spec["cols"]:
        data[name] = _build_col(kind, values, extra)
    index = spec.get("index")
    if index is None:
        index = list(range(len(spec["cols"][0][2]) if spec["cols"] else 0))
    df = pd.DataFrame(data, index=pd.Index(list(index)))
    # column order is exactly the order of spec["cols"]
    return df[[c[0] for c in spec["cols"]]] if spec["cols"] else df


def _build_col(kind, values, extra):
    if kind == "float":
        return np.array([np.nan if v is None else float(v) for v in values], dtype=float)
    if kind == "int":
        return np.array([int(v) for v in values], dtype=np.int64)
    if kind == "str":
        return pd.array([None if v is None else str(v) for v in values], dtype="str")
    if kind == "obj":
        return np.array(list(values), dtype=object)
    if kind == "cat":
        return pd.Categorical(
            [None if v is None else v for v in values],
            categories=list(extra["categories"]),
            ordered=bool(extra.get("ordered", False)),
        )
    raise ValueError(f"unknown column kind {kind!r}")


def refill_in_place(df, spec):
    """Overwrite the values of ``df`` (same object) with those of ``spec``.

    The spec has the same columns; it may have FEWER rows: then the caller first deletes the trailing
    rows of that very object in place (what ``df.dropna(inplace=True)`` / ``df.drop(..., inplace=True)`` do)."""
    n_new = n_rows(spec)
    if n_new < len(df):
        old_index = list(df.index)
        df.index = range(len(df))  # labels may be duplicated: delete by position
        df.drop(index=list(range(n_new, len(df))), inplace=True)
        df.index = pd.Index(old_index[:n_new])
    for name, kind, values, extra in spec["cols"]:
        df[name] = _build_col(kind, values, extra)
    return df


def spec_digest(spec):
    return hashlib.sha256(json.dumps(spec, sort_keys=True).encode()).hexdigest()[:16]


def frame_fingerprint(df):
    """Canonical, hash-seed independent fingerprint of a caller-owned frame:
    values, dtypes, index and column order."""
    h = hashlib.sha256()
    h.update(repr([str(c) for c in df.columns]).encode())
    h.update(repr([str(t) for t in df.dtypes]).encode())
    h.update(repr(list(df.index)).encode())
    h.update(repr(type(df.index).__name__).encode())
    for c in df.columns:
        col = df[c]
        if isinstance(col.dtype, pd.CategoricalDtype):
            h.update(repr(list(col.cat.categories)).encode())
            h.update(repr(bool(col.cat.ordered)).encode())
            h.update(np.asarray(col.cat.codes).tobytes())
        elif col.dtype.kind in "fiub":
            h.update(np.ascontiguousarray(col.to_numpy()).tobytes())
        else:
            h.update(repr([None if pd.isna(v) else v for v in col.tolist()]).encode())
    return h.hexdigest()[:24]


def n_rows(spec):
    return len(spec["cols"][0][2]) if spec["cols"] else 0


def col(spec, name):
    for c in spec["cols"]:
        if c[0] == name:
            return c
    return None


def take_rows(spec, idx, keep_cols=None, index=None):
    """A new spec made of rows ``idx`` (positions) of ``spec``."""
    cols = []
    for name, kind, values, extra in spec["cols"]:
        if keep_cols is not None and name not in keep_cols:
            continue
        cols.append([name, kind, [values[i] for i in idx], extra])
    base_index = spec.get("index") or list(range(n_rows(spec)))
    return {"cols": cols, "index": [base_index[i] for i in idx] if index is None else index}


def complete_rows(spec, used):
    """Positions of rows without a missing value in the ``used`` columns."""
    n = n_rows(spec)
    keep = []
    for i in range(n):
        ok = True
        for name, kind, values, extra in spec["cols"]:
            if name in used and values[i] is None:
                ok = False
                break
        if ok:
            keep.append(i)
    return keep
