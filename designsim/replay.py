"""Replay a violation file in a fresh interpreter under the recorded hash seed.

    python -m designsim.replay <file>

exit 1 + VIOLATION line when the recorded violation is reproduced (same
property, oracle, failure kind and step), exit 3 when it is not, exit 2 on a
harness error."""
import json
import os
import sys

from .pool import Pool


def replay_file(path, repo=None, quiet=False):
    with open(path) as fh:
        rep = json.load(fh)
    exp = rep["expected"]
    if exp["oracle"] == "H":
        return replay_h(rep, path, repo, quiet)
    pool = Pool(1, [rep.get("hashseed", 0)], log_path=os.devnull, repo=repo)
    try:
        res = pool.map([{"kind": "scenario", "job_id": "replay", "scenario": rep["scenario"],
                         "oracles": rep["oracles"], "known": rep.get("known", []), "timeout": 300,
                         "events": True}])["replay"]
    finally:
        pool.close()
    if "harness_error" in res:
        print("HARNESS-ERROR", res["harness_error"], res.get("trace", ""))
        return 2
    v = res["violation"]
    same = v is not None and all(v[k] == exp[k] for k in ("property", "oracle", "kind", "step"))
    if not quiet:
        for e in res.get("events", []):
            print(f"  step {e['n']:3d} {e['op']:12s} {e['outcome']}")
    if same:
        print(f"VIOLATION property={v['property']} replay={path}")
        print(f"  oracle={v['oracle']} kind={v['kind']} key={v['key']} step={v['step']}")
        print(f"  {v['detail']}")
        return 1
    print(f"did not reproduce: expected {exp}, got {v and {k: v[k] for k in ('property', 'oracle', 'kind', 'step')}}")
    return 3


def replay_h(rep, path, repo, quiet):
    """Nondeterminism: run the scenario in fresh interpreter processes under the two recorded hash seeds
    (they may be equal: address-dependent behaviour) and compare every observable semantically."""
    from .diverge import investigate

    job = {"kind": "scenario", "scenario": rep["scenario"], "oracles": rep["oracles"], "timeout": 300}
    ha, hb = rep["hashseeds"]
    inv = investigate(job, ha, hb, repo=repo, tries=8)
    if inv["status"] == "formulae":
        print(f"VIOLATION property=C07 replay={path}")
        print(f"  oracle=H: in two interpreter processes (PYTHONHASHSEED {ha} and {hb}) the same operation "
              f"sequence gives different observable outcomes at step {inv['step']}: {inv['detail']}")
        return 1
    if inv["status"] == "harness":
        print("HARNESS-ERROR", inv["detail"])
        return 2
    print("did not reproduce: 8 fresh process pairs agreed on every observable")
    return 3


def first_divergence(ea, eb):
    for x, y in zip(ea, eb):
        if (x["op"], x["outcome"], x.get("sd"), x.get("nd")) != (y["op"], y["outcome"], y.get("sd"), y.get("nd")):
            return x["n"]
    if len(ea) != len(eb):
        return min(len(ea), len(eb))
    return None


def main():
    if len(sys.argv) < 2:
        print(__doc__)
        return 2
    return replay_file(sys.argv[1], repo=os.environ.get("DESIGNSIM_REPO"))


if __name__ == "__main__":
    sys.exit(main())
