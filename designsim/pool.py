"""Pool of worker processes.  Every worker is a FRESH interpreter (subprocess,
not a fork of the parent) started with its own PYTHONHASHSEED and with the
numeric libraries pinned to one thread.  Jobs are handed out dynamically; a
result is keyed by its job id, so neither the number of workers nor the
assignment of jobs to workers can change any result."""
import json
import os
import selectors
import subprocess
import sys
import time

HERE = os.path.dirname(os.path.dirname(os.path.abspath(__file__)))


class HarnessError(Exception):
    pass


class Pool:
    def __init__(self, n_workers, hashseeds, log_path=None, repo=None):
        self.procs = []
        self.sel = selectors.DefaultSelector()
        self.log = open(log_path or os.devnull, "ab")
        for i in range(n_workers):
            env = dict(os.environ)
            env["PYTHONHASHSEED"] = str(hashseeds[i % len(hashseeds)])
            for v in ("OMP_NUM_THREADS", "OPENBLAS_NUM_THREADS", "MKL_NUM_THREADS", "NUMEXPR_NUM_THREADS"):
                env[v] = "1"
            env["PYTHONPATH"] = HERE + (":" + env["PYTHONPATH"] if env.get("PYTHONPATH") else "")
            env["PYTHONDONTWRITEBYTECODE"] = "1"
            if repo:
                env["DESIGNSIM_REPO"] = repo
            p = subprocess.Popen([sys.executable, "-m", "designsim.worker"], stdin=subprocess.PIPE,
                                 stdout=subprocess.PIPE, stderr=self.log, env=env, cwd=HERE)
            os.set_blocking(p.stdout.fileno(), False)
            w = {"p": p, "buf": b"", "job": None, "i": i, "hashseed": env["PYTHONHASHSEED"]}
            self.procs.append(w)
            self.sel.register(p.stdout, selectors.EVENT_READ, w)

    def _feed(self, w, job):
        w["job"] = job
        w["t0"] = time.monotonic()
        w["p"].stdin.write((json.dumps(job) + "\n").encode())
        w["p"].stdin.flush()

    def map(self, jobs, deadline=None, on_result=None, stop_on=None):
        """Run jobs (dicts with unique 'job_id'); returns {job_id: result}.
        stop_on(result) -> True stops handing out new jobs."""
        jobs = list(jobs)
        results = {}
        it = iter(jobs)
        stop = False
        inflight = 0
        for w in self.procs:
            if w["job"] is None:
                j = next(it, None)
                if j is None:
                    break
                self._feed(w, j)
                inflight += 1
        while inflight:
            if deadline is not None and time.monotonic() > deadline:
                stop = True
            events = self.sel.select(timeout=1.0)
            now = time.monotonic()
            for w in self.procs:
                if w["job"] is not None and now - w["t0"] > w["job"].get("timeout", 120) + 30:
                    raise HarnessError(f"worker {w['i']} unresponsive on job {w['job'].get('job_id')}")
            for key, _ in events:
                w = key.data
                try:
                    chunk = os.read(key.fileobj.fileno(), 1 << 20)
                except BlockingIOError:
                    continue
                if not chunk:
                    if w["job"] is not None:
                        raise HarnessError(f"worker {w['i']} died during job {w['job'].get('job_id')}")
                    self.sel.unregister(key.fileobj)
                    continue
                w["buf"] += chunk
                while b"\n" in w["buf"]:
                    line, w["buf"] = w["buf"].split(b"\n", 1)
                    res = json.loads(line)
                    res["worker_hashseed"] = w["hashseed"]
                    results[res["job_id"]] = res
                    w["job"] = None
                    inflight -= 1
                    if on_result:
                        on_result(res)
                    if stop_on and stop_on(res):
                        stop = True
                    j = None if stop else next(it, None)
                    if j is not None:
                        self._feed(w, j)
                        inflight += 1
        return results

    def close(self):
        for w in self.procs:
            try:
                w["p"].stdin.write(b'{"kind":"quit"}\n')
                w["p"].stdin.flush()
                w["p"].stdin.close()
            except (OSError, ValueError):
                pass
        for w in self.procs:
            try:
                w["p"].wait(timeout=10)
            except subprocess.TimeoutExpired:
                w["p"].kill()
        self.log.close()
