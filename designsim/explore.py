"""Seeded exploration: many short, diverse runs across the worker pool."""
import argparse
import collections
import json
import os
import time

from .gen import mix
from .pool import Pool


def run_seeds(prop, tier, verif_seed, n, start=0):
    return [mix(verif_seed, prop, tier, i) for i in range(start, start + n)]


def hashseeds_for(verif_seed, n, salt=0):
    return [1 + mix(verif_seed, "hashseed", salt, i) % 4294967290 for i in range(n)]


def explore(pool, prop, tier, seeds, known=(), disabled=(), deadline=None, extra=None, sample_first=3,
            stop_on_violation=False, prefix="x"):
    jobs = []
    for i, s in enumerate(seeds):
        job = {"kind": "seed", "job_id": f"{prefix}{i}", "run_seed": s, "property": prop, "tier": tier,
               "known": list(known), "disabled": list(disabled), "sample": i < sample_first}
        if extra:
            job.update(extra)
        jobs.append(job)
    stop = (lambda r: r.get("violation") is not None) if stop_on_violation else None
    res = pool.map(jobs, deadline=deadline, stop_on=stop)
    return [res[j["job_id"]] for j in jobs if j["job_id"] in res]


def summarise(results):
    agg = {
        "runs": len(results), "ops": 0, "stats": collections.Counter(), "probes": collections.Counter(),
        "trigrams": set(), "states": set(), "violations": [], "harness_errors": [], "wall_runs": 0.0,
        "ref_requests": 0, "suppressed": collections.Counter(), "fams": collections.Counter(),
    }
    for r in results:
        if "harness_error" in r:
            agg["harness_errors"].append({"job": r.get("job_id"), "error": r["harness_error"],
                                          "trace": r.get("trace", "")[-1200:]})
            continue
        agg["ops"] += r["n_ops"]
        agg["stats"].update(r["stats"])
        agg["probes"].update(r["probes"])
        agg["trigrams"].update(tuple(t) for t in r["trigrams"])
        agg["states"].update(r["states"])
        agg["wall_runs"] += r["wall"]
        agg["ref_requests"] += r.get("ref_requests", 0)
        agg["fams"].update(r.get("fams", []))
        for s in r.get("suppressed", []):
            agg["suppressed"][(s["oracle"], s["kind"], s["key"])] += 1
        if r["violation"] is not None:
            agg["violations"].append(r)
    return agg


def main():
    ap = argparse.ArgumentParser()
    ap.add_argument("--property", required=True)
    ap.add_argument("--tier", default="quick")
    ap.add_argument("--n", type=int, default=200)
    ap.add_argument("--start", type=int, default=0)
    ap.add_argument("--workers", type=int, default=16)
    ap.add_argument("--seed", type=int, default=int(os.environ.get("VERIF_SEED", "0")))
    ap.add_argument("--repo", default=None)
    ap.add_argument("--disabled", default="")
    ap.add_argument("--show", type=int, default=12)
    a = ap.parse_args()
    pool = Pool(a.workers, hashseeds_for(a.seed, a.workers), log_path="/tmp/designsim-explore.log", repo=a.repo)
    t0 = time.time()
    try:
        res = explore(pool, a.property, a.tier, run_seeds(a.property, a.tier, a.seed, a.n, a.start),
                      disabled=[d for d in a.disabled.split(",") if d])
    finally:
        pool.close()
    agg = summarise(res)
    wall = time.time() - t0
    print(f"runs={agg['runs']} ops={agg['ops']} wall={wall:.1f}s runs/s={agg['runs'] / wall:.1f} "
          f"violations={len(agg['violations'])} harness_errors={len(agg['harness_errors'])} "
          f"states={len(agg['states'])} trigrams={len(agg['trigrams'])}")
    sig = collections.Counter()
    first = {}
    for r in agg["violations"]:
        v = r["violation"]
        k = (v["oracle"], v["kind"], v["key"])
        sig[k] += 1
        first.setdefault(k, (r["run_seed"], v))
    for k, c in sig.most_common(a.show):
        s, v = first[k]
        print(f"  {c:5d} {k} seed={s} step={v['step']}\n        {v['detail'][:400]}\n        "
              f"{json.dumps(v['extra'])[:300]}")
    for h in agg["harness_errors"][:5]:
        print("HARNESS", h["job"], h["error"], h["trace"][-800:])
    print("stats:", {k: v for k, v in sorted(agg["stats"].items())})
    print("probes:", {k: v for k, v in sorted(agg["probes"].items()) if not k.startswith("abort_in")})


if __name__ == "__main__":
    main()
