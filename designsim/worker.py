"""Worker main (process P of reference.py).  Reads JSON jobs on stdin, one per
line, answers one JSON line per job on the original stdout.  Anything formulae
prints goes to stderr."""
import json
import os
import sys
import time

_out = os.fdopen(os.dup(1), "w", buffering=1)
os.dup2(2, 1)
sys.stdout = sys.stderr

from . import prelude  # noqa: E402,F401
from . import executor, gen  # noqa: E402
from .reference import Host  # noqa: E402


def make_suppress(known):
    sigs = set((k["oracle"], k["kind"], k["key"]) for k in known or [])

    def suppress(v):
        return (v.oracle, v.kind, v.key) in sigs

    return suppress


def run_job(job, ref):
    import faulthandler

    faulthandler.dump_traceback_later(job.get("timeout", 120) - 5, exit=False)
    t0 = time.perf_counter()
    if job["kind"] == "seed":
        sc = gen.generate(job["run_seed"], job["property"], job.get("tier", "quick"),
                          disabled=job.get("disabled", ()), force=job.get("force"))
    else:
        sc = job["scenario"]
    oracles = job.get("oracles") or sorted(executor.ORACLES_OF[sc["property"]])
    import hashlib

    sc_digest = hashlib.sha256(json.dumps(sc, sort_keys=True, default=repr).encode()).hexdigest()[:20]
    out = executor.run_scenario(sc, oracles=oracles, ref=ref, suppress=make_suppress(job.get("known")),
                                dump=bool(job.get("dump")))
    out["scenario_digest"] = sc_digest
    if out.get("dump") is not None:
        import base64
        import pickle

        out["dump"] = base64.b64encode(pickle.dumps(out["dump"], protocol=4)).decode()
    else:
        out.pop("dump", None)
    out["wall"] = round(time.perf_counter() - t0, 4)
    out["ref_requests"] = ref.requests
    out["run_seed"] = sc.get("run_seed")
    out["hashseed"] = os.environ.get("PYTHONHASHSEED")
    flat = [oo for op in sc["ops"] for oo in (op, op.get("nested")) if oo]
    out["fams"] = sorted(set(f for op in flat if op["op"] == "build" for f in op["fm"]["fams"])) \
        if all("fm" in op for op in flat if op["op"] == "build") else []
    if not job.get("events"):
        out.pop("events", None)
    if out["violation"] is not None or job.get("want_scenario"):
        out["scenario"] = sc
    if job.get("sample"):
        out["sample"] = {
            "ops": [_brief(op) for op in sc["ops"]][:60],
            "n_frames": len(sc["frames"]),
        }
    return out


def _brief(op):
    keep = ("op", "id", "formula", "frame", "target", "part", "kind", "key", "value", "of", "na_action")
    b = {k: op[k] for k in keep if k in op}
    if op.get("fault"):
        b["fault"] = {k: op["fault"][k] for k in ("kind", "at", "flavour") if k in op["fault"]}
    if "polluted" in op:
        b["polluted"] = op["polluted"]
    if "idx" in op:
        b["n_rows"] = len(op["idx"])
    if op.get("nested"):
        b["nested_inside_uf"] = _brief(op["nested"])
    return b


def main():
    host = Host()
    for line in sys.stdin:
        line = line.strip()
        if not line:
            continue
        job = json.loads(line)
        if job.get("kind") == "quit":
            break
        res = host.run(run_job, job, timeout=job.get("timeout", 120))
        res["job_id"] = job.get("job_id")
        res["ref_cache"] = [host.ref_requests, host.ref_hits]
        _out.write(json.dumps(res, default=_json_default) + "\n")
        _out.flush()


def _json_default(o):
    import numpy as np

    if isinstance(o, (np.integer,)):
        return int(o)
    if isinstance(o, (np.floating,)):
        return float(o)
    if isinstance(o, (set, frozenset)):
        return sorted(o)
    if isinstance(o, tuple):
        return list(o)
    return repr(o)


if __name__ == "__main__":
    main()
