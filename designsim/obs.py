"""Observable outcomes: canonical digests and semantic comparison (no formulae import)."""
import hashlib

import numpy as np


def _canon(obj, h, numeric):
    """Feed a canonical encoding of obj into hash h.  numeric=False leaves float
    payloads out (structure digest), numeric=True includes exact bytes."""
    if isinstance(obj, np.ndarray):
        h.update(f"<A{obj.dtype.kind}{obj.shape}>".encode())
        if numeric:
            if obj.dtype.kind in "OUSV":  # object arrays: bytes would be pointers
                h.update(repr(obj.tolist()).encode())
            else:
                h.update(np.ascontiguousarray(obj).tobytes())
    elif isinstance(obj, dict):
        for k in obj:
            h.update(f"<K{k}>".encode())
            _canon(obj[k], h, numeric)
    elif isinstance(obj, (list, tuple)):
        h.update(b"<L>")
        for x in obj:
            _canon(x, h, numeric)
        h.update(b"</L>")
    else:
        h.update(repr(obj).encode())


def digest(obj, numeric=True):
    h = hashlib.sha256()
    _canon(obj, h, numeric)
    return h.hexdigest()[:20]


def arrays_equal(a, b):
    """(exact, close) for two arrays."""
    if a.shape != b.shape or a.dtype.kind != b.dtype.kind:
        return False, False
    if a.dtype.kind in "fc":
        exact = bool(np.array_equal(a, b, equal_nan=True))
        close = exact or bool(np.allclose(a, b, rtol=1e-11, atol=1e-12, equal_nan=True))
        return exact, close
    if a.dtype.kind == "O":
        # object arrays (a frame with a wrong dtype evaluated without complaint) may hold float NaN next to
        # strings: NaN must compare equal to NaN here as it does for float arrays
        exact = objects_equal(a, b)
        return exact, exact
    exact = bool(np.array_equal(a, b))
    return exact, exact


def objects_equal(a, b):
    """Element-wise equality of two equally shaped object arrays, NaN == NaN."""
    for x, y in zip(a.ravel().tolist(), b.ravel().tolist()):
        if x is y:
            continue
        try:
            if x == y:
                continue
        except Exception:  # noqa: BLE001
            return False
        if isinstance(x, float) and isinstance(y, float) and x != x and y != y:
            continue
        return False
    return True


def compare_obs(a, b, path="", stats=None):
    """First difference between two observables, or None."""
    if isinstance(a, np.ndarray) or isinstance(b, np.ndarray):
        if not (isinstance(a, np.ndarray) and isinstance(b, np.ndarray)):
            return f"{path}: array vs {type(b).__name__}"
        exact, close = arrays_equal(a, b)
        if not close:
            return f"{path}: arrays differ shape {a.shape} vs {b.shape}"
        if not exact and stats is not None:
            stats["ulp_diffs"] = stats.get("ulp_diffs", 0) + 1
        return None
    if isinstance(a, dict) and isinstance(b, dict):
        if list(a) != list(b):
            return f"{path}: keys {list(a)} vs {list(b)}"
        for k in a:
            d = compare_obs(a[k], b[k], f"{path}.{k}", stats)
            if d:
                return d
        return None
    if isinstance(a, (list, tuple)) and isinstance(b, (list, tuple)):
        if len(a) != len(b):
            return f"{path}: length {len(a)} vs {len(b)}: {a!r} vs {b!r}"[:300]
        for i, (x, y) in enumerate(zip(a, b)):
            d = compare_obs(x, y, f"{path}[{i}]", stats)
            if d:
                return d
        return None
    if a != b:
        return f"{path}: {a!r} vs {b!r}"[:300]
    return None


