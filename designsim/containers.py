"""Oracle D: container invariants (C17), evaluated on every live matrix object
(training, derived, chained, widened) after every step."""
import warnings

import numpy as np


def _eq(a, b):
    a, b = np.asarray(a), np.asarray(b)
    if a.shape != b.shape:
        return False
    if a.dtype.kind in "OUS" or b.dtype.kind in "OUS":
        # not numbers (a frame with a wrong dtype was evaluated without complaint): element-wise, NaN == NaN
        from .obs import objects_equal

        return objects_equal(a.astype(object), b.astype(object))
    if a.dtype.kind in "fc" or b.dtype.kind in "fc":
        return bool(np.array_equal(a.astype(float), b.astype(float), equal_nan=True))
    return bool(np.array_equal(a, b))


def check_D(world):
    with warnings.catch_warnings():
        warnings.simplefilter("ignore")
        for did, d in list(world.designs.items()):
            dm = d["dm"]
            ctx = {"formula": d["op"]["formula"], "object": did}
            n_ret = len(d["retained"])
            # tuple unpacking yields (response, common, group)
            try:
                r, c, g = dm
            except Exception as e:  # noqa: BLE001
                world.fail("D", "unpack", "DesignMatrices", f"tuple-unpacking the design raised {type(e).__name__}", ctx)
                continue
            if not (r is dm.response and c is dm.common and g is dm.group):
                world.fail("D", "unpack", "DesignMatrices", "tuple unpacking does not yield (response, common, group)", ctx)
            _printable(world, dm, "DesignMatrices", ctx, [p.design_matrix.shape for p in (r, c, g) if p is not None])
            if r is not None:
                _check_response(world, r, n_ret, ctx)
            if c is not None:
                _check_matrix(world, c, "common", n_ret, ctx, widened=False)
            if g is not None:
                _check_matrix(world, g, "group", n_ret, ctx, widened=False)
        for rid, r in list(world.results.items()):
            root = world.designs.get(r["root"])
            ctx = {"formula": root["op"]["formula"] if root else "?", "object": rid, "depth": r["depth"]}
            _check_matrix(world, r["obj"], r["part"], r["n_rows"], ctx, widened=r["widened"])


def _printable(world, obj, cls, ctx, shapes):
    world.bump("check.D.print")
    for fn_name, fn in (("str", str), ("repr", repr)):
        try:
            text = fn(obj)
        except Exception as e:  # noqa: BLE001
            world.fail("D", "print-raises", f"{cls}.{fn_name}:{type(e).__name__}",
                       f"{fn_name}() of a {cls} raised {type(e).__name__}: {e}", ctx)
            return
        for shp in shapes:
            if str(shp) not in text:
                world.fail("D", "print-shape", cls, f"{fn_name}() of a {cls} does not report the actual shape "
                           f"{shp}", ctx)
                return


def _numpy_protocol(world, obj, M, part, ctx):
    """numpy conversion with the arguments numpy itself passes to ``__array__`` (dtype, copy): the advertised
    ``np.array(this_obj)`` and a conversion to float must work and expose the same numbers."""
    if M.dtype.kind not in "fiub":
        return
    try:
        a = np.array(obj)
        b = np.asarray(obj, dtype=float)
    except Exception as e:  # noqa: BLE001
        world.fail("D", "asarray-raises", f"{part}:{type(e).__name__}",
                   f"numpy conversion of the {part} matrix raised {type(e).__name__}: {e}", ctx)
        return
    if not _eq(a, M) or not _eq(b, M.astype(float)):
        world.fail("D", "asarray", part, "np.array(obj) / np.asarray(obj, dtype=float) expose other numbers", ctx)


def _check_response(world, r, n_ret, ctx):
    world.bump("check.D.object")
    M = r.design_matrix
    if M.shape[0] != n_ret:
        world.fail("D", "rows", "response", f"response has {M.shape[0]} rows, {n_ret} observations are retained", ctx)
    if not _eq(np.asarray(r), M):
        world.fail("D", "asarray", "response", "np.asarray(response) differs from design_matrix", ctx)
    _numpy_protocol(world, r, M, "response", ctx)
    try:
        df = r.as_dataframe()
    except Exception as e:  # noqa: BLE001
        world.fail("D", "as_dataframe-raises", f"response:{type(e).__name__}",
                   f"response.as_dataframe() raised {type(e).__name__}: {e}", ctx)
        return
    M2 = M if M.ndim == 2 else M[:, None]
    if not _eq(df.to_numpy(), M2):
        world.fail("D", "as_dataframe-values", "response", "response.as_dataframe() exposes other numbers", ctx)
    if len(set(map(str, df.columns))) != M2.shape[1]:
        world.fail("D", "labels", "response", f"response labels {list(df.columns)} are not unique / do not "
                   f"match {M2.shape[1]} columns", ctx)
    _printable(world, r, "ResponseMatrix", ctx, [M.shape])


def _check_matrix(world, obj, part, n_rows, ctx, widened):
    world.bump("check.D.object")
    cls = type(obj).__name__
    M = obj.design_matrix
    ncols = M.shape[1] if M.ndim == 2 else 1
    names = list(obj.terms)
    if list(obj.slices) != names:
        world.fail("D", "slice-keys", part, f"slices keys {list(obj.slices)} are not the terms in order {names}", ctx)
        return
    start = 0
    for name in names:
        s = obj.slices[name]
        if s.start != start or s.stop < s.start or s.step not in (None, 1):
            world.fail("D", "slices-not-contiguous", part,
                       f"slice of {name!r} is {s}, expected to start at {start}; all slices: {dict(obj.slices)}", ctx)
            return
        start = s.stop
    if start != ncols:
        world.fail("D", "slices-do-not-cover", part, f"slices end at {start}, the matrix has {ncols} columns", ctx)
        return
    if M.shape[0] != n_rows:
        world.fail("D", "rows", part, f"{part} matrix has {M.shape[0]} rows, expected {n_rows}", ctx)
    for name in names:
        try:
            sub = obj[name]
        except Exception as e:  # noqa: BLE001
            world.fail("D", "getitem-raises", part, f"obj[{name!r}] raised {type(e).__name__}", ctx)
            return
        if not _eq(sub, M[:, obj.slices[name]]):
            world.fail("D", "getitem-values", part, f"obj[{name!r}] is not design_matrix[:, slices[{name!r}]]", ctx)
            return
    try:
        obj["<no such term>"]
        accepted = True
    except Exception:  # noqa: BLE001
        accepted = False
    if accepted:
        world.fail("D", "getitem-unknown-accepted", part, "indexing by an unknown term name was accepted", ctx)
    if not _eq(np.asarray(obj), M):
        world.fail("D", "asarray", part, "np.asarray(obj) differs from design_matrix", ctx)
    _numpy_protocol(world, obj, M, part, ctx)
    if part == "common":
        try:
            df = obj.as_dataframe()
        except Exception as e:  # noqa: BLE001
            world.fail("D", "as_dataframe-raises", f"common:{type(e).__name__}",
                       f"common.as_dataframe() raised {type(e).__name__}: {e}", ctx)
            return
        if not _eq(df.to_numpy(), M):
            world.fail("D", "as_dataframe-values", part, "as_dataframe() exposes other numbers", ctx)
        labels = [str(x) for x in df.columns]
        if len(set(labels)) != ncols:
            dup = sorted(x for x in set(labels) if labels.count(x) > 1)
            world.fail("D", "labels", f"{part}:{dup[0]}" if dup else part,
                       f"{len(set(labels))} unique labels for {ncols} columns: {labels}", ctx)
    else:
        if not widened:
            labels = []
            for t in obj.terms.values():
                try:
                    labels += [str(x) for x in t.labels]
                except Exception as e:  # noqa: BLE001
                    world.fail("D", "labels-raise", part, f"labels of {t.name!r} raised {type(e).__name__}", ctx)
                    return
            if len(labels) != ncols or len(set(labels)) != ncols:
                world.fail("D", "labels", part, f"{len(labels)} labels ({len(set(labels))} unique) for {ncols} "
                           f"columns", ctx)
    _printable(world, obj, cls, ctx, [M.shape])
