"""Crash-point injector: raises an exception between two statements of
formulae code, from the outside, through PEP 669 ``sys.monitoring`` LINE
events restricted to files under the formulae package.  No change to /repo.
"""
import sys

mon = sys.monitoring
TOOL = 3


class SimAbortBase(BaseException):
    """KeyboardInterrupt-like: not caught by ``except Exception``."""


class SimAbortExc(Exception):
    """MemoryError-like: an ordinary exception surfacing at an arbitrary line."""


class Injector:
    def __init__(self, root):
        self.root = root.rstrip("/") + "/"
        self.count = 0
        self.at = None
        self.exc = None
        self.fired = None
        self.active = False
        self.installed = False

    def install(self):
        if self.installed:
            return
        mon.use_tool_id(TOOL, "designsim")
        mon.register_callback(TOOL, mon.events.LINE, self._line)
        self.installed = True

    def _line(self, code, line):
        if not code.co_filename.startswith(self.root):
            return mon.DISABLE
        if not self.active:
            return None
        self.count += 1
        if self.at is not None and self.count == self.at:
            self.fired = (code.co_filename[len(self.root):], code.co_name, line)
            raise self.exc
        return None

    def run(self, fn, at=None, flavour="base"):
        """Run fn() counting formulae line events; abort at the ``at``-th one.

        Returns (value, count, fired).  Exceptions propagate after the
        monitoring has been switched off."""
        self.install()
        self.count = 0
        self.at = at
        self.fired = None
        self.exc = (SimAbortBase if flavour == "base" else SimAbortExc)(f"injected abort at line event {at}")
        mon.restart_events()
        mon.set_events(TOOL, mon.events.LINE)
        self.active = True
        try:
            return fn()
        finally:
            self.active = False
            mon.set_events(TOOL, 0)
