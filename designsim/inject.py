"""Crash-point injector: raises an exception between two statements of
formulae code ("line" mode) or right before a call made by formulae code,
i.e. inside a statement after earlier sub-expressions were already evaluated
("call" mode), from the outside, through PEP 669 ``sys.monitoring`` events
restricted to files under the formulae package.  No change to /repo.
"""
import dis
import sys

mon = sys.monitoring
TOOL = 3


class SimAbortBase(BaseException):
    """KeyboardInterrupt-like: not caught by ``except Exception``."""


class SimAbortExc(Exception):
    """MemoryError-like: an ordinary exception surfacing at an arbitrary point."""


class Injector:
    def __init__(self, root):
        self.root = root.rstrip("/") + "/"
        self.counts = {"line": 0, "call": 0}
        self.at = None
        self.mode = "line"
        self.exc = None
        self.fired = None
        self.active = False
        self.installed = False
        self._plain_calls = {}  # code object -> offsets of plain CALL instructions

    @property
    def count(self):
        return self.counts[self.mode]

    def install(self):
        if self.installed:
            return
        mon.use_tool_id(TOOL, "designsim")
        mon.register_callback(TOOL, mon.events.LINE, self._line)
        mon.register_callback(TOOL, mon.events.CALL, self._call)
        self.installed = True

    def _hit(self, mode, code, where):
        self.counts[mode] += 1
        if self.at is not None and self.mode == mode and self.counts[mode] == self.at:
            self.fired = (code.co_filename[len(self.root):], code.co_name, where)
            raise self.exc

    def _line(self, code, line):
        if not code.co_filename.startswith(self.root):
            return mon.DISABLE
        if self.active:
            self._hit("line", code, line)
        return None

    def _call(self, code, offset, callable_, arg0):
        if not code.co_filename.startswith(self.root):
            return mon.DISABLE
        if self.active:
            # Only plain CALL instructions are crash points.  CPython 3.12.1 mishandles an exception raised
            # by a CALL callback at CALL_FUNCTION_EX (`f(*args, **kw)` with a non-function callee): the
            # argument list is released twice, which corrupts the heap of the *harness* process.
            ok = self._plain_calls.get(code)
            if ok is None:
                ok = frozenset(i.offset for i in dis.get_instructions(code) if i.opname == "CALL")
                self._plain_calls[code] = ok
            if offset in ok:
                self._hit("call", code, f"call@{offset}")
        return None

    def run(self, fn, at=None, flavour="base", mode="line", count_both=False):
        """Run fn() counting formulae line/call events; abort at the ``at``-th event of ``mode``.
        Exceptions propagate after the monitoring has been switched off."""
        self.install()
        self.counts = {"line": 0, "call": 0}
        self.at = at
        self.mode = mode
        self.fired = None
        self.exc = (SimAbortBase if flavour == "base" else SimAbortExc)(
            f"injected abort at {mode} event {at}")
        mon.restart_events()
        if count_both:
            ev = mon.events.LINE | mon.events.CALL
        else:
            ev = mon.events.LINE if mode == "line" else mon.events.CALL
        mon.set_events(TOOL, ev)
        self.active = True
        try:
            return fn()
        finally:
            self.active = False
            mon.set_events(TOOL, 0)
