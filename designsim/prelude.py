"""Fixed prelude executed identically in the simulated world, in the zygote of
the fresh-process reference and in the replayer, before any formulae function
runs: numeric libraries pinned to one thread, the fixture transform ``ut``
registered, client namespaces defined.
"""
import os
import sys

for _v in ("OMP_NUM_THREADS", "OPENBLAS_NUM_THREADS", "MKL_NUM_THREADS", "NUMEXPR_NUM_THREADS"):
    os.environ.setdefault(_v, "1")

REPO = os.environ.get("DESIGNSIM_REPO", "/repo")
if REPO not in sys.path:
    sys.path.insert(0, REPO)

import numpy as np  # noqa: E402

import formulae  # noqa: E402
from formulae import design_matrices  # noqa: E402
from formulae.transforms import register_stateful_transform  # noqa: E402

FORMULAE_DIR = os.path.dirname(os.path.abspath(formulae.__file__))


@register_stateful_transform
class UserTransform:
    """A user-registered stateful transform: rescales to the training range."""

    __transform_name__ = "ut"

    def __init__(self):
        self.lo = None
        self.span = None

    def __call__(self, x):
        _h = UF_HOOK[0]
        if _h is not None:
            # interleaving seam (see UF_HOOK below): another operation is issued from inside this transform call
            UF_HOOK[0] = None
            _h()
        if self.lo is None:
            self.lo = np.min(x)
            self.span = np.max(x) - np.min(x) + 1.0
        return (x - self.lo) / self.span


from formulae.categorical import ContrastMatrix, Encoding  # noqa: E402


class Helmert(Encoding):
    """A user-defined encoding (the documented extension point) whose contrast has FRACTIONAL entries."""

    def code_with_intercept(self, levels):
        sub = self.code_without_intercept(levels)
        return ContrastMatrix(np.column_stack([np.ones(len(levels)), sub.matrix]), ["mean"] + list(sub.labels))

    def code_without_intercept(self, levels):
        n = len(levels)
        m = np.zeros((n, n - 1))
        for j in range(1, n):
            m[:j, j - 1] = -1.0 / (j + 1)
            m[j, j - 1] = j / (j + 1)
        return ContrastMatrix(m, [f"H{j}" for j in range(1, n)])


def register_clash(name):
    """What a host program may do at any time: register a stateful transform under a name that callers
    also use for their own plain functions."""

    class Clash:
        __transform_name__ = name

        def __init__(self):
            self.first = None

        def __call__(self, x):
            if self.first is None:
                self.first = float(np.min(np.asarray(x, dtype=float)))
            return np.asarray(x, dtype=float) - self.first

    Clash.__name__ = f"Clash_{name}"
    return register_stateful_transform(Clash)


# Interleaving seam: when the simulator arms UF_HOOK[0], the next call of a client's ``uf`` or of the user-registered
# stateful transform ``ut`` (made by formulae in the
# middle of a build or an evaluation) first runs that callable -- a nested operation issued by user code --
# and then computes its value as usual.  Never armed in the fresh-process reference.
UF_HOOK = [None]

CLIENT_SRC = """
def _build0(_f, _d, _na, _ex):
    return design_matrices(_f, _d, na_action=_na, extra_namespace=_ex)


def _inner1(_f, _d, _na, _ex):
    return design_matrices(_f, _d, na_action=_na, env=1, extra_namespace=_ex)


def _build1(_f, _d, _na, _ex):
    return _inner1(_f, _d, _na, _ex)


def ucat(s):
    return s.astype(str).str.upper()


def uf(x, _hook=_uf_hook):
    _h = _hook[0]
    if _h is not None:
        # the simulator interleaves another operation here: in the middle of the build / evaluation that called uf
        _hook[0] = None
        _h()
    if np.any(np.asarray(x) == 777.0):
        raise ValueError("uf: marker value")
    return np.sqrt(np.abs(x)) + c0
"""


def make_client(spec, idx, ns_extra=None):
    """A caller: its global namespace, its extra_namespace dict and the function
    from which it calls design_matrices (directly or one frame up)."""
    ns = {"__name__": f"client{idx}", "np": np, "design_matrices": design_matrices,
          "c0": float(spec.get("c0", 1.0))}
    for k, v in (ns_extra or {}).items():
        ns[k] = v
    import types

    k = ns["c0"]
    # a module-like object bound to the SAME name in every client, with different behaviour per client
    ns["tools"] = types.SimpleNamespace(
        f=lambda x, _k=k: x * _k,
        sub=types.SimpleNamespace(
            g=lambda x, _k=k: np.abs(x) + _k,
            deep=types.SimpleNamespace(er=types.SimpleNamespace(h=lambda x, _k=k: x - _k)),
        ),
    )
    from formulae.categorical import Sum, Treatment

    # encoding instances owned (and reused across designs) by the caller
    ns["tr0"] = Treatment()
    ns["sm0"] = Sum()
    ns["Helmert"] = Helmert
    ns["hel0"] = Helmert()
    ns["_uf_hook"] = UF_HOOK
    exec(compile(CLIENT_SRC, f"<client{idx}>", "exec"), ns)
    del ns["_uf_hook"]  # bound as a default argument of uf; the namespace itself looks as before
    extra = spec.get("extra")
    extra = None if extra is None else dict(extra)
    fn = ns["_build1"] if spec.get("depth", 0) == 1 else ns["_build0"]
    return {"ns": ns, "extra": extra, "fn": fn}
