"""Per-property check: deterministic simulation with fault injection.

    python -m designsim.check --property C07 [--tier quick|thorough]

exit 0  the property held on everything explored (KNOWN-FINDING lines possible)
exit 1  VIOLATION property=<id> replay=<path>
exit 2  HARNESS-ERROR (timeouts, worker death, self-test divergence that is not
        attributable to formulae)
"""
import argparse
import collections
import glob
import json
import os
import sys
import time

from . import sweeps
from .explore import explore, hashseeds_for, run_seeds, summarise
from .gen import mix
from .minimise import Minimiser
from .pool import HarnessError, Pool
from .diverge import investigate
from .replay import first_divergence

HERE = os.path.dirname(os.path.dirname(os.path.abspath(__file__)))
ORACLES_OF = {"C06": ["B"], "C07": ["A", "S"], "C10": ["C", "G"], "C17": ["D"]}
LEVEL = {"C06": "exploration", "C07": "fault_enumeration", "C10": "exploration", "C17": "exploration"}

TIERS = {
    "quick": {
        "selftest": 24, "runs": {"C06": 1400, "C07": 520, "C10": 1400, "C17": 1200},
        "explore_wall": 50, "sweeps": 24, "coldproc": 12, "sweeps_wall": 240, "micropool_len": 3, "micropools": 1,
        "micropool_wall": 200, "minimise_s": 45,
        "hash_runs": 500, "hash_seeds": 2, "interleave_runs": 160,
    },
    "thorough": {
        "selftest": 192, "runs": {"C06": 40000, "C07": 14000, "C10": 40000, "C17": 36000},
        "explore_wall": 720, "sweeps": 220, "coldproc": 64, "sweeps_wall": 600, "micropool_len": 4, "micropools": 2,
        "micropool_wall": 500, "minimise_s": 120, "hash_runs": 3000, "hash_seeds": 3,
        "interleave_runs": 6000,
    },
}


class Ctx:
    pass


def load_known(prop):
    path = os.path.join(HERE, "known_findings.json")
    if not os.path.exists(path):
        return [], []
    with open(path) as fh:
        k = json.load(fh)
    return [f for f in k.get("findings", []) if f["property"] == prop], k.get("fixed", [])


REPLAY_DIR = [os.path.join(HERE, "replays")]


def write_replay(prop, tag, scenario, violation, oracles, hashseed, known, found_by):
    os.makedirs(REPLAY_DIR[0], exist_ok=True)
    path = os.path.join(REPLAY_DIR[0], f"{prop}-{tag}.json")
    rep = {
        "format": "designsim-replay-1",
        "property": prop,
        "hashseed": int(hashseed),
        "oracles": oracles,
        "known": known,
        "expected": {k: violation[k] for k in ("property", "oracle", "kind", "key", "step")},
        "detail": violation["detail"],
        "found_by": found_by,
        "scenario": scenario,
    }
    with open(path, "w") as fh:
        json.dump(rep, fh, indent=1)
    return path


def selftest(c):
    """Determinism first: (i) same seeds, same hash seed, two pools with different worker counts ->
    identical digests; (ii) the same seeds under other hash seeds -> identical digests, else the first
    diverging event decides between formulae nondeterminism (oracle H, C07) and a harness bug."""
    n = c.T["selftest"]
    seeds = run_seeds(c.prop, c.tier, c.seed, n)
    h1 = hashseeds_for(c.seed, 1, salt="selftest")[0]
    out = {"seeds": n, "hashseed_a": h1}
    extra = {"events": True}
    pa = Pool(c.workers, [h1], log_path=c.log, repo=c.repo)
    try:
        ra = explore(pa, c.prop, c.tier, seeds, known=c.known_sigs, disabled=c.disabled, extra=extra, prefix="sa")
    finally:
        pa.close()
    pb = Pool(max(2, c.workers // 3), [h1], log_path=c.log, repo=c.repo)
    try:
        rb = explore(pb, c.prop, c.tier, seeds, known=c.known_sigs, disabled=c.disabled, extra=extra, prefix="sb")
    finally:
        pb.close()
    hs = hashseeds_for(c.seed, c.workers, salt="selftest-other")
    pc = Pool(c.workers, hs, log_path=c.log, repo=c.repo)
    try:
        rc = explore(pc, c.prop, c.tier, seeds, known=c.known_sigs, disabled=c.disabled,
                     extra=dict(extra, want_scenario=True), prefix="sc")
    finally:
        pc.close()
    for r in ra + rb + rc:
        if "harness_error" in r:
            raise HarnessError(f"selftest run failed: {r['harness_error']} {r.get('trace', '')[-800:]}")
    same_hash_div, other_hash_div = 0, 0
    for a, b, cc, s in zip(ra, rb, rc, seeds):
        da = (a["digest"], a["ndigest"])
        job = {"kind": "seed", "run_seed": s, "property": c.prop, "tier": c.tier, "known": c.known_sigs,
               "disabled": c.disabled}
        if not (a.get("scenario_digest") == b.get("scenario_digest") == cc.get("scenario_digest")):
            raise HarnessError(f"selftest: run seed {s} generated different scenarios in different worker pools: the "
                               "generator is not a pure function of the seed (or /verif changed while the check ran)")
        if da != (b["digest"], b["ndigest"]):
            same_hash_div += 1
            settle_divergence(c, job, h1, h1, s, out)
            break
        if da != (cc["digest"], cc["ndigest"]):
            other_hash_div += 1
            settle_divergence(c, job, h1, int(cc["worker_hashseed"]), s, out)
            break
    out["same_hashseed_divergences"] = same_hash_div
    out["other_hashseed_divergences"] = other_hash_div
    out["pools"] = [c.workers, max(2, c.workers // 3), c.workers]
    out["distinct_other_hashseeds"] = len(set(hs))
    return out, ra


def settle_divergence(c, job, hs_a, hs_b, run_seed, out):
    """Two processes disagreed on the digests of one seeded run: find out who is to blame."""
    inv = investigate(job, hs_a, hs_b, repo=c.repo, log=c.log, tries=4)
    out["divergence"] = {k: inv.get(k) for k in ("status", "step", "detail", "hashseeds")}
    out["divergence"]["run_seed"] = run_seed
    if inv["status"] == "formulae":
        same = hs_a == hs_b
        v = {"property": "C07", "oracle": "H", "kind": "process-divergence" if same else "hashseed-divergence",
             "key": "determinism", "step": inv["step"],
             "detail": f"run seed {run_seed}: the same operation sequence gives different observable outcomes in two "
                       f"interpreter processes (PYTHONHASHSEED {hs_a} and {hs_b}), first at step {inv['step']}: "
                       f"{inv['detail']}"[:600]}
        if c.prop != "C07":
            raise HarnessError("formulae itself is not deterministic across processes, so no verdict on "
                               f"{c.prop} can be trusted (this is C07's business): {v['detail']}")
        sc = inv["scenario"]
        sc["ops"] = sc["ops"][: inv["step"] + 1]
        os.makedirs(REPLAY_DIR[0], exist_ok=True)
        path = os.path.join(REPLAY_DIR[0], f"C07-H-{run_seed}.json")
        with open(path, "w") as fh:
            json.dump({"format": "designsim-replay-1", "property": "C07", "oracles": job.get("oracles") or ["A", "S"],
                       "hashseeds": [hs_a, hs_b], "expected": v, "detail": v["detail"], "scenario": sc}, fh, indent=1)
        c.violations.append((v, path))
    elif inv["status"] == "harness":
        raise HarnessError(f"selftest: run seed {run_seed} diverges between processes because of the harness: "
                           f"{inv['detail']}")
    else:
        # keep going: if formulae is at fault the other phases usually show it as a proper violation; if nothing
        # else is found the check ends with exit 2 (it can not say "held" after an unexplained divergence)
        c.unexplained.append(f"run seed {run_seed} gave different digests in two processes (hash seeds {hs_a}, "
                             f"{hs_b}) but the difference did not reproduce in 4 fresh process pairs")


def handle_violation(c, pool, res, found_by):
    """Minimise, write the replay file, remember the VIOLATION."""
    v = res["violation"]
    sc = res["scenario"]
    sig = (v["property"], v["oracle"], v["kind"])
    mini = Minimiser(pool, c.oracles, sig, known=c.known_sigs, budget_s=c.T["minimise_s"])
    try:
        sc2, v2, info = mini.run(sc, v)
    except HarnessError:
        sc2, v2, info = sc, v, {"minimised": False}
    # the minimised scenario must reproduce in a fresh interpreter under the recorded hash seed
    path = write_replay(c.prop, str(res.get("run_seed") or found_by.get("tag", "x")), sc2, v2, c.oracles,
                        # a failure may depend on the hash seed: record the one under which the scenario that is
                        # written (the minimised one) was last seen to fail
                        getattr(mini, "last_hashseed", None) or res.get("worker_hashseed", res.get("hashseed", 0)),
                        c.known_sigs,
                        dict(found_by, minimisation=info))
    c.violations.append((v2, path))


def run_regressions(c, pool):
    """Explicit scenarios of repaired defects: must pass; a failure is a VIOLATION."""
    files = sorted(glob.glob(os.path.join(HERE, "regressions", f"{c.prop}-*.json")))
    jobs = []
    for i, f in enumerate(files):
        with open(f) as fh:
            rep = json.load(fh)
        jobs.append({"kind": "scenario", "job_id": f"g{i}", "scenario": rep["scenario"], "oracles": rep["oracles"],
                     "known": c.known_sigs, "want_scenario": True, "file": f})
    res = pool.map(jobs)
    n_fail = 0
    for j in jobs:
        r = res[j["job_id"]]
        if "harness_error" in r:
            raise HarnessError(f"regression scenario {j['file']}: {r['harness_error']} {r.get('trace', '')[-600:]}")
        if r["violation"] is not None:
            n_fail += 1
            v = r["violation"]
            path = write_replay(c.prop, "regression-" + os.path.basename(j["file"])[:-5], r["scenario"], v,
                                j["oracles"], r["worker_hashseed"], c.known_sigs, {"regression": j["file"]})
            c.violations.append((v, path))
    return {"scenarios": len(files), "failed": n_fail}


def run_known(c, pool):
    lines = []
    for f in c.known:
        res = pool.map([{"kind": "scenario", "job_id": "k", "scenario": f["scenario"], "oracles": c.oracles}])["k"]
        v = res.get("violation")
        sig = f["signature"]
        if v and (v["oracle"], v["kind"], v["key"]) == (sig["oracle"], sig["kind"], sig["key"]):
            lines.append(f"KNOWN-FINDING: property={c.prop} {f['id']}: {f['what']}")
        elif v:
            c.violations.append((v, write_replay(c.prop, "known-" + f["id"], f["scenario"], v, c.oracles,
                                                 res["worker_hashseed"], [], {"known_finding": f["id"]})))
        else:
            lines.append(f"NOTE: known finding {f['id']} no longer reproduces (property={c.prop})")
    return lines


def main(argv=None):
    ap = argparse.ArgumentParser()
    ap.add_argument("--property", required=True, choices=sorted(ORACLES_OF))
    ap.add_argument("--tier", default=os.environ.get("VERIF_TIER") or "quick", choices=["quick", "thorough"])
    ap.add_argument("--seed", type=int, default=int(os.environ.get("VERIF_SEED") or 0))
    ap.add_argument("--workers", type=int, default=min(16, os.cpu_count() or 4))
    ap.add_argument("--repo", default=os.environ.get("DESIGNSIM_REPO"))
    ap.add_argument("--runs", type=int, default=None)
    ap.add_argument("--no-evidence", action="store_true")
    ap.add_argument("--replay-dir", default=None)
    a = ap.parse_args(argv)
    if a.replay_dir:
        REPLAY_DIR[0] = os.path.abspath(a.replay_dir)
    c = Ctx()
    c.prop, c.tier, c.seed, c.workers, c.repo = a.property, a.tier, a.seed, a.workers, a.repo
    c.T = TIERS[a.tier]
    c.oracles = ORACLES_OF[c.prop]
    c.violations = []
    c.unexplained = []
    c.log = os.path.join(HERE, "evidence", f".{c.prop}-{c.tier}.worker.log")
    os.makedirs(os.path.join(HERE, "evidence"), exist_ok=True)
    open(c.log, "w").close()
    c.known, fixed = load_known(c.prop)
    c.known_sigs = [f["signature"] for f in c.known]
    c.disabled = sorted(set(x for f in c.known for x in f.get("disabled_families", [])))
    t0 = time.time()
    print(f"designsim check property={c.prop} tier={c.tier} VERIF_SEED={c.seed} workers={c.workers} "
          f"repo={c.repo or '/repo'}", flush=True)
    ev = {"selftest": None, "regressions": None, "exploration": None, "sweeps": None, "micropool": None}
    known_lines = []
    try:
        hs = hashseeds_for(c.seed, c.workers)
        # ---- determinism self-test
        ev["selftest"], st_results = selftest(c)
        print(f"selftest: {ev['selftest']}", flush=True)
        pool = Pool(c.workers, hs, log_path=c.log, repo=c.repo)
        try:
            ev["regressions"] = run_regressions(c, pool)
            known_lines = run_known(c, pool)
            # ---- seeded exploration
            n_runs = a.runs or c.T["runs"][c.prop]
            seeds = run_seeds(c.prop, c.tier, c.seed, n_runs)
            te = time.time()
            res = explore(pool, c.prop, c.tier, seeds, known=c.known_sigs, disabled=c.disabled,
                          deadline=time.monotonic() + c.T["explore_wall"], sample_first=4)
            # ---- interleavings: histories in which an operation is issued from user code (the uf seam) in the
            # middle of another build / evaluation; own seeds, so the histories above are what they always were
            n_main = len(res)
            il_seeds = [mix(c.seed, "interleave", c.prop, c.tier, i) for i in range(0 if a.runs else c.T["interleave_runs"])]
            if il_seeds:
                res_il = explore(pool, c.prop, c.tier, il_seeds, known=c.known_sigs, disabled=c.disabled,
                                 deadline=time.monotonic() + c.T["explore_wall"], extra={"force": IL_FORCE},
                                 sample_first=1, prefix="il")
                print(f"interleave phase: runs={len(res_il)}", flush=True)
                res = res + res_il
            agg = summarise(res)
            ev["exploration"] = {"agg": agg, "wall": time.time() - te, "requested": n_runs,
                                 "interleave_runs": len(il_seeds),
                                 "first_seed": seeds[0], "last_seed": seeds[n_main - 1] if n_main else None,
                                 "results": res}
            if agg["harness_errors"]:
                raise HarnessError(f"{len(agg['harness_errors'])} runs failed in the harness: "
                                   f"{agg['harness_errors'][0]}")
            print(f"exploration: runs={agg['runs']} ops={agg['ops']} wall={ev['exploration']['wall']:.1f}s "
                  f"violations={len(agg['violations'])}", flush=True)
            # ---- C07: crash-point sweeps and micro-pool
            if c.prop == "C07" and not c.violations and not agg["violations"]:
                ev["sweeps"] = run_sweeps(c, pool)
                ev["micropool"] = run_micropool(c, pool)
                ev["hash"] = run_hash_phase(c)
            # ---- violations: minimise the earliest one per signature (at most 3)
            # one report per signature (at most 3): among the runs that show it, minimise the smallest one
            def size(r):
                sc = r["scenario"]
                rows = sum(len(f["cols"][0][2]) if f["cols"] else 0 for f in sc["frames"].values())
                return (r["violation"]["step"] + 1) * 50 + rows

            by_sig = {}
            for r in agg["violations"]:
                v = r["violation"]
                by_sig.setdefault((v["oracle"], v["kind"]), []).append(r)
            for k in list(by_sig)[:3]:
                r = min(by_sig[k], key=size)
                handle_violation(c, pool, r, {"phase": "exploration", "run_seed": r["run_seed"]})
        finally:
            pool.close()
    except HarnessError as e:
        print(f"HARNESS-ERROR property={c.prop} {e}", flush=True)
        return 2
    wall = time.time() - t0
    if not a.no_evidence:
        write_evidence(c, ev, wall, fixed, known_lines)
    for line in known_lines:
        print(line)
    if c.unexplained and not c.violations:
        print(f"HARNESS-ERROR property={c.prop} unexplained divergence between processes: {c.unexplained[0]}")
        return 2
    if c.violations:
        # deterministic violations first: their replay files reproduce with certainty
        c.violations.sort(key=lambda vp: vp[0]["oracle"] == "H")
        for v, path in c.violations:
            print(f"VIOLATION property={v['property']} replay={path}")
            print(f"  oracle={v['oracle']} kind={v['kind']} key={v['key']} step={v['step']}: {v['detail'][:500]}")
        return 1
    print(f"OK property={c.prop} tier={c.tier} wall={wall:.1f}s")
    return 0


IL_FORCE = {"interleave": True, "families_add": ["uf"], "cfg": {"with_faults": False}}
H_FORCE = {"cfg": {"with_faults": False, "max_items": 4},
           "families_add": ["inter", "star", "power", "slash", "group", "catstr", "catcat", "box"]}


def run_hash_phase(c):
    """Oracle H at scale: the same seeded histories (rich in interactions, no reference process needed)
    under several PYTHONHASHSEED values; every observable outcome must agree."""
    n = c.T["hash_runs"]
    seeds = [mix(c.seed, "hash-phase", c.tier, i) for i in range(n)]
    hseeds = hashseeds_for(c.seed, c.T["hash_seeds"], salt="hash-phase")
    t = time.time()
    per = []
    for hs in hseeds:
        pool = Pool(c.workers, [hs], log_path=c.log, repo=c.repo)
        try:
            res = explore(pool, "C07", c.tier, seeds, known=c.known_sigs, disabled=c.disabled,
                          extra={"oracles": ["-"], "force": H_FORCE}, sample_first=0, prefix=f"h{hs}_")
        finally:
            pool.close()
        for r in res:
            if "harness_error" in r:
                raise HarnessError(f"hash phase run failed: {r['harness_error']} {r.get('trace', '')[-600:]}")
        per.append(res)
    divergent = []
    for i, s in enumerate(seeds):
        ds = [(p[i]["digest"], p[i]["ndigest"]) for p in per if i < len(p)]
        if len(set(ds)) > 1:
            j = next(k for k in range(1, len(ds)) if ds[k] != ds[0])
            divergent.append((s, hseeds[0], hseeds[j]))
    out = {"runs_per_hashseed": n, "hashseeds": hseeds, "divergent_runs": len(divergent),
           "wall": round(time.time() - t, 1),
           "s_violations": sum(1 for p in per for r in p if r.get("violation"))}
    # S violations seen here are ordinary C07 violations
    for p in per:
        for r in p:
            if r.get("violation") and not c.violations:
                pool = Pool(c.workers, [int(r["worker_hashseed"])], log_path=c.log, repo=c.repo)
                try:
                    c_or = c.oracles
                    c.oracles = ["S"]
                    handle_violation(c, pool, r, {"phase": "hash phase", "run_seed": r["run_seed"]})
                    c.oracles = c_or
                finally:
                    pool.close()
    if divergent and not c.violations:
        s, ha, hb = divergent[0]
        job = {"kind": "seed", "run_seed": s, "property": "C07", "tier": c.tier, "known": c.known_sigs,
               "disabled": c.disabled, "oracles": ["-"], "force": H_FORCE}
        settle_divergence(c, job, ha, hb, s, out)
    print(f"hash phase: {out}", flush=True)
    return out


def run_sweeps(c, pool):
    n = c.T["sweeps"]
    seeds = [mix(c.seed, "sweep", c.tier, i) for i in range(n)]
    jobs = [{"kind": "scenario", "job_id": f"w{i}", "scenario": sweeps.sweep_scenario(s, c.tier),
             "oracles": c.oracles, "known": c.known_sigs, "timeout": 600, "sample": i < 2}
            for i, s in enumerate(seeds)]
    # cold-process sweeps: first build / first evaluation of a process, one forked child per crash point
    for i in range(c.T["coldproc"]):
        jobs.insert(2 * i, {"kind": "scenario", "job_id": f"cp{i}", "oracles": c.oracles, "known": c.known_sigs,
                            "scenario": sweeps.coldproc_scenario(mix(c.seed, "coldproc", c.tier, i), c.tier),
                            "timeout": 900, "sample": i < 1})
    t = time.time()
    res = pool.map(jobs, deadline=time.monotonic() + c.T["sweeps_wall"])
    out = [res[j["job_id"]] for j in jobs if j["job_id"] in res]
    agg = summarise(out)
    if agg["harness_errors"]:
        raise HarnessError(f"sweep runs failed in the harness: {agg['harness_errors'][0]}")
    for r in agg["violations"][:2]:
        handle_violation(c, pool, r, {"phase": "crash-point sweep", "tag": f"sweep-{r.get('job_id')}"})
    print(f"sweeps: scenarios={len(out)} eval_points={agg['stats'].get('sweep.eval.points', 0)} "
          f"build_points={agg['stats'].get('sweep.build.points', 0)} "
          f"coldproc_points={agg['stats'].get('sweep.coldproc.points', 0)} wall={time.time() - t:.1f}s "
          f"violations={len(agg['violations'])}", flush=True)
    return {"agg": agg, "wall": time.time() - t, "scenarios": len(out), "results": out}


def run_micropool(c, pool):
    t = time.time()
    total = collections.Counter()
    all_res = []
    for p in range(c.T["micropools"]):
        pool_seed = mix(c.seed, "micropool", p)
        jobs = []
        for i, sc in enumerate(sweeps.micropool(pool_seed, c.T["micropool_len"])):
            jobs.append({"kind": "scenario", "job_id": f"p{p}_{i}", "scenario": sc, "oracles": c.oracles,
                         "known": c.known_sigs, "timeout": 120, "sample": i == 40})
        res = pool.map(jobs, deadline=time.monotonic() + c.T["micropool_wall"])
        out = [res[j["job_id"]] for j in jobs if j["job_id"] in res]
        total["sequences"] += len(out)
        total["complete"] += int(len(out) == len(jobs))
        all_res += out
    agg = summarise(all_res)
    if agg["harness_errors"]:
        raise HarnessError(f"micro-pool runs failed in the harness: {agg['harness_errors'][0]}")
    for r in agg["violations"][:2]:
        handle_violation(c, pool, r, {"phase": "micro-pool enumeration", "tag": f"micropool-{r.get('job_id')}"})
    print(f"micropool: pools={c.T['micropools']} sequences={total['sequences']} max_len={c.T['micropool_len']} "
          f"wall={time.time() - t:.1f}s violations={len(agg['violations'])}", flush=True)
    return {"agg": agg, "wall": time.time() - t, "sequences": total["sequences"], "pools": c.T["micropools"],
            "max_len": c.T["micropool_len"], "all_pools_complete": total["complete"] == c.T["micropools"],
            "results": all_res}


NONTRIVIAL_KEY = {"C06": "check.B", "C07": "check.A.eval", "C10": "check.C", "C17": "check.D.object"}
RULE = {
    "C06": "one case = one seeded history (builds, evaluations of training-row multisets / fresh / unseen / broken "
           "frames on designs and on earlier results, config flips, refills, injected aborts); non-trivial = at least "
           "one training-row identity (oracle B) was actually evaluated in it; distinct = distinct chained digest of "
           "its event log (op, outcome, structure and exact bytes of every observable)",
    "C07": "one case = one seeded history, one crash-point sweep scenario or one enumerated micro-pool sequence; "
           "non-trivial = at least one evaluate_new_data outcome was compared with a fresh-process reference "
           "(oracle A) or at least one crash point was injected; distinct = distinct chained event-log digest",
    "C10": "one case = one seeded history with unseen-level frames under changing modes; non-trivial = the policy "
           "model (oracle C) judged at least one evaluation in it; distinct = distinct chained event-log digest",
    "C17": "one case = one seeded history; non-trivial = the container invariants (oracle D) were evaluated on at "
           "least one matrix object; distinct = distinct chained event-log digest",
}


def write_evidence(c, ev, wall, fixed, known_lines):
    parts = []
    for key in ("exploration", "sweeps", "micropool"):
        if ev.get(key):
            parts.append((key, ev[key]))
    stats = collections.Counter()
    probes = collections.Counter()
    trigrams, states = set(), set()
    digests = set()
    evaluations = 0
    nontrivial = set()
    ops = 0
    samples = []
    fams = collections.Counter()
    for key, part in parts:
        agg = part["agg"]
        stats.update(agg["stats"])
        probes.update(agg["probes"])
        trigrams |= agg["trigrams"]
        states |= agg["states"]
        ops += agg["ops"]
        fams.update(agg["fams"])
        for r in part["results"]:
            if "harness_error" in r:
                continue
            evaluations += 1
            d = (r["digest"], r["ndigest"])
            digests.add(d)
            st = r["stats"]
            nt = st.get(NONTRIVIAL_KEY[c.prop], 0) > 0 or st.get("sweep.eval.points", 0) > 0 \
                or st.get("sweep.build.points", 0) > 0 or st.get("sweep.coldproc.points", 0) > 0
            if nt:
                nontrivial.add(d)
            if "sample" in r and len(samples) < 6:
                samples.append({"phase": key, "run_seed": r.get("run_seed"), "ops": r["sample"]["ops"][:25],
                                "n_ops": r["n_ops"], "frames": r["sample"]["n_frames"]})
    faults = {k[len("fault.fired."):]: v for k, v in sorted(stats.items()) if k.startswith("fault.fired.")}
    abort_sites = {k[len("abort_in:"):]: v for k, v in probes.items() if k.startswith("abort_in:")}
    expl = ev.get("exploration") or {}
    runs = (expl.get("agg") or {}).get("runs", 0)
    ewall = expl.get("wall") or 1e-9
    coverage = {
        "evaluations": evaluations,
        "distinct_nontrivial": len(nontrivial),
        "rule": RULE[c.prop],
        "samples": samples or [{"note": "no run completed"}],
        "exhaustive": False,
        "simulated_runs": runs,
        "runs_per_hour": int(runs / ewall * 3600),
        "ops_executed": ops,
        "ops_per_hour": int((expl.get("agg") or {}).get("ops", 0) / ewall * 3600),
        "seeds": {"VERIF_SEED": c.seed, "derivation": "run_seed_i = sha256(repr((VERIF_SEED, property, tier, i)))",
                  "first_run_seed": expl.get("first_seed"), "last_run_seed": expl.get("last_seed"),
                  "requested_runs": expl.get("requested"), "interleave_phase_runs": expl.get("interleave_runs", 0)},
        "simulated_time": "not applicable: formulae has no clock, timer or deadline; logical steps are reported "
                          f"instead ({ops} ops)",
        "faults_fired": faults,
        "fault_kinds_note": "inject.<op>.<line|call>.<base|exc> = exception raised from a sys.monitoring callback "
                            "between two statements of formulae code (line) or right before a call made by formulae code, "
                            "i.e. inside a statement (call); base = BaseException-derived like KeyboardInterrupt, exc = "
                            "Exception-derived like MemoryError; natural.* = operation that fails on its own half-way "
                            "(unseen level under 'error', missing column, wrong dtype, user callable raising); "
                            "config.flip/invalid = global config changed / mis-set between operations; caller.* = "
                            "caller refills the same DataFrame object / writes into a returned matrix; "
                            "interleave.<A><<B> = operation B (build or evaluation, of the same or of another design) "
                            "issued from the client function uf while formulae is in the middle of operation A "
                            "(interleave phase, own seeds: sha256(repr((VERIF_SEED, 'interleave', property, tier, i))))",
        "faults_armed_not_fired": stats.get("fault.armed_not_fired", 0),
        "abort_sites_distinct": len(abort_sites),
        "abort_sites_top": dict(sorted(abort_sites.items(), key=lambda kv: -kv[1])[:12]),
        "oracle_checks": {k: v for k, v in sorted(stats.items()) if k.startswith("check.")},
        "ops_by_kind": {k: v for k, v in sorted(stats.items()) if k.startswith("op.")},
        "rare_condition_probes": {k: v for k, v in sorted(probes.items()) if not k.startswith("abort_in:")},
        "distinct_interleavings": {
            "op_outcome_trigrams": len(trigrams),
            "abstract_world_states": len(states),
            "measure": "trigrams of (op kind:outcome); abstract state = (config mode, per design (formula feature "
                       "families, #evals bucket, had a failed eval, has a widened descendant), max chain depth, "
                       "#live results)",
        },
        "formula_families_built": dict(sorted(fams.items())),
        "selftest": ev.get("selftest"),
        "regression_scenarios": ev.get("regressions"),
        "components": {
            "real": ["formulae (all modules, unmodified working tree)", "numpy", "pandas", "scipy", "warnings",
                     "CPython hash randomisation (one PYTHONHASHSEED per worker interpreter)"],
            "simulated": ["clients and their namespaces (uf, ut fixtures)", "frames (seeded generator)",
                          "crash points (sys.monitoring injector)", "config reference model",
                          "unseen-level policy model", "fresh-process reference (fork of a pristine interpreter)"],
        },
        "known_findings": known_lines,
        "fixed_findings": [f for f in fixed if f.get("property") == c.prop],
    }
    if ev.get("sweeps"):
        s = ev["sweeps"]["agg"]["stats"]
        coverage["crash_point_sweeps"] = {
            "scenarios": ev["sweeps"]["scenarios"], "swept_evals": s.get("sweep.eval.ops", 0),
            "eval_crash_points": s.get("sweep.eval.points", 0), "swept_builds": s.get("sweep.build.ops", 0),
            "build_crash_points": s.get("sweep.build.points", 0),
            "eval_points_by_mode": {"line": s.get("sweep.eval.points.line", 0), "call": s.get("sweep.eval.points.call", 0)},
            "build_points_by_mode": {"line": s.get("sweep.build.points.line", 0),
                                     "call": s.get("sweep.build.points.call", 0)},
            "cold_first_evaluation_points": s.get("sweep.eval.cold.points", 0),
            "cold_process_sweeps": s.get("sweep.coldproc.ops", 0),
            "cold_process_points": s.get("sweep.coldproc.points", 0),
            "rule": "every line event (or every call event) of the swept evaluate_new_data inside formulae/ (stride 1; "
                    "quick tier alternates the two exception flavours over the points, thorough injects both at every "
                    "point); stride sample of the swept design_matrices; after each abort: S invariants on every live "
                    "object + un-faulted canary compared with the pre-fault baseline, fresh-process reference at the end; "
                    "cold sweeps: every point of the FIRST evaluation on a freshly built design; cold-process sweeps: a "
                    "stride sample of the points of the first build (+ first evaluation) of a process, one forked "
                    "child per point",
        }
    if ev.get("hash"):
        coverage["hash_seed_phase"] = ev["hash"]
    if ev.get("micropool"):
        m = ev["micropool"]
        coverage["micropool"] = {"pools": m["pools"], "max_len": m["max_len"], "sequences": m["sequences"],
                                 "alphabet": 9, "exhaustive_up_to_len": m["all_pools_complete"]}
    doc = {
        "property_id": c.prop,
        "tier": c.tier,
        "seed": c.seed,
        "level": LEVEL[c.prop],
        "coverage": coverage,
        "assumptions": [
            "numpy/pandas/scipy are trusted and run single-threaded",
            "abort positions are statement boundaries of formulae code (an abort inside a numpy call is approximated "
            "by the abort before the next formulae line)",
            "formulas come from the harness grammar (documented language), frames from the seeded generator "
            "(1-60 rows, <=5 levels)",
            "sampling, not proof: a clean batch is evidence that the property holds on the explored histories",
        ],
        "wall_s": round(wall, 2),
        "violations": len(c.violations),
    }
    path = os.path.join(HERE, "evidence", f"{c.prop}.json")
    with open(path, "w") as fh:
        json.dump(doc, fh, indent=1, default=lambda o: sorted(o) if isinstance(o, (set, frozenset)) else repr(o))


if __name__ == "__main__":
    sys.exit(main())
