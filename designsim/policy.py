"""Oracle C: reference model of the unseen-level / new-group policy (C10).

Computed independently of formulae from (i) the generator's knowledge of which
cells were replaced by unseen labels, (ii) the term names (identifiers by
regex), (iii) the evaluation of the *clean twin* frame on the same target and
(iv) the training widths of the root design.
"""
import numpy as np

from . import frames as F


def _mentions(text, var):
    from .executor import mentions

    return mentions(text, var)


def check_C(world, op, obj, root, part, outcome, obs, info, wl):
    from .executor import _do_eval, observe_part, formulae_user_warnings

    world.bump("check.C")
    mode = world.mode
    polluted = {v: rows for v, rows in op["polluted"].items()}
    names = [t for t in obj.terms]
    twin_frame = world.frame(op["twin"])
    try:
        twin_res, twin_wl = _do_eval(obj, twin_frame)
    except Exception:  # noqa: BLE001 - cannot judge without the clean evaluation
        world.bump("check.C.skipped_twin_raises")
        return
    twin = observe_part(twin_res, part)
    tm = np.asarray(twin["M"])
    if tm.dtype.kind not in "fiub" or not np.all(np.isfinite(tm.astype(float))):
        # missing / non-finite numbers (e.g. a transform fitted on data with NaN under na_action='pass'):
        # 0 * NaN is NaN, the zero rule cannot be stated; NaN semantics are C09's, not judged here
        world.bump("check.C.skipped_nonfinite_twin")
        return
    n = F.n_rows(world.frame_spec[op["frame"]])
    n_warn = formulae_user_warnings(wl)
    ctx = {"formula": root["op"]["formula"], "mode": mode, "polluted": polluted}

    if part == "common":
        affected_rows = {}  # term -> set(rows)
        for t in names:
            rows = set()
            for v, rs in polluted.items():
                if _mentions(t, v):
                    rows |= set(rs)
            affected_rows[t] = rows
        any_affected = any(affected_rows.values())
        if any_affected:
            world.probe("unseen_in_common_predictor")
        if any(":" in t and affected_rows[t] for t in names):
            world.probe("unseen_in_interaction_component")
        if mode == "error":
            if any_affected:
                if outcome != "raise":
                    world.fail("C", "no-raise-in-error-mode", "common",
                               f"mode 'error': common part of {ctx['formula']!r} was evaluated on unseen levels "
                               f"{polluted} without raising", ctx)
                return
            _expect_equal(world, outcome, obs, twin, info, "common", ctx)
            return
        if outcome == "raise":
            world.fail("C", "raise-in-lenient-mode", f"{info['type']}@{info['site']}",
                       f"mode {mode!r}: evaluating the common part of {ctx['formula']!r} on unseen levels "
                       f"{polluted} raised {info['type']} at {info['site']}", ctx)
            return
        M, T = obs["M"], twin["M"]
        if M.shape != T.shape:
            world.fail("C", "shape", "common", f"mode {mode!r}: shape {M.shape} differs from the shape without "
                       f"unseen levels {T.shape}", ctx)
            return
        if M.ndim == 1:
            M, T = M[:, None], T[:, None]
        for (t, a, b) in twin["slices"]:
            expect = np.array(T[:, a:b], dtype=float, copy=True)
            rows = sorted(affected_rows.get(t, ()))
            if rows:
                expect[rows, :] = 0
            got = np.asarray(M[:, a:b], dtype=float)
            if not np.allclose(got, expect, rtol=1e-10, atol=1e-12, equal_nan=True):
                bad = np.argwhere(~np.isclose(got, expect, rtol=1e-10, atol=1e-12, equal_nan=True))[0]
                r = int(bad[0])
                why = "must be zero (row has an unseen level of a variable of this term)" if r in rows else \
                    "must equal the value without unseen levels"
                world.fail("C", "zero-rule", f"common:{'affected' if r in rows else 'unaffected'}",
                           f"mode {mode!r}: term {t!r} row {r} is {got[r].tolist()} but {why}: "
                           f"{expect[r].tolist()}", ctx)
                return
        _expect_warnings(world, mode, n_warn, any_affected, None, ctx)
        return

    # ---- group part
    train = root["obs0"]["group"]
    tw = {t: (b - a) for t, a, b in train["slices"]}
    tgroups = dict(zip(train["terms"], train["groups"]))
    eff_rows, fac_rows = {}, {}
    for t in names:
        expr, _, factor = t.partition("|")
        er, fr = set(), set()
        for v, rs in polluted.items():
            if _mentions(expr, v):
                er |= set(rs)
            if _mentions(factor, v):
                fr |= set(rs)
        eff_rows[t], fac_rows[t] = er, fr
    any_eff = any(eff_rows.values())
    any_fac = any(fac_rows.values())
    if any_fac:
        world.probe("unseen_group")
    if any_eff:
        world.probe("unseen_effect_level")
    if any(eff_rows[t] & fac_rows[t] for t in names):
        world.probe("unseen_effect_and_group_same_row")
    if any(":" in t.partition("|")[2] and fac_rows[t] for t in names):
        world.probe("unseen_in_interaction_factor")
    if mode == "error":
        if any_eff:
            if outcome != "raise":
                world.fail("C", "no-raise-in-error-mode", "group-effect",
                           f"mode 'error': group part of {ctx['formula']!r} was evaluated on unseen effect levels "
                           f"{polluted} without raising", ctx)
            return
        if any_fac:
            if outcome == "raise":
                return  # the statement names no mode for the group rule; the shipped code raises
        else:
            _expect_equal(world, outcome, obs, twin, info, "group", ctx)
            return
    if outcome == "raise":
        world.fail("C", "raise-in-lenient-mode", f"{info['type']}@{info['site']}",
                   f"mode {mode!r}: evaluating the group part of {ctx['formula']!r} on {polluted} raised "
                   f"{info['type']} at {info['site']}", ctx)
        return
    M, T = obs["M"], twin["M"]
    tslices = {t: (a, b) for t, a, b in twin["slices"]}
    start = 0
    exp_slices = []
    for t in names:
        if t not in tw or t not in tslices or not isinstance(tgroups.get(t), list):
            world.bump("check.C.skipped_unknown_term")
            return
        ng = len(tgroups[t])
        width = tw[t]
        if ng == 0 or width % ng:
            world.bump("check.C.skipped_width")
            return
        w = width // ng
        a, b = tslices[t]
        Tt = np.asarray(T[:, a:b], dtype=float)
        if Tt.shape[1] != width:
            world.bump("check.C.skipped_twin_width")
            return
        fr = sorted(fac_rows[t])
        er = sorted(eff_rows[t])
        expect = np.array(Tt, copy=True)
        if er:
            expect[er, :] = 0
        if fr:
            expect[fr, :] = 0
            xi = Tt.reshape(n, ng, w).sum(axis=1)
            tail = np.zeros((n, w))
            tail[fr, :] = xi[fr, :]
            if er:
                tail[er, :] = 0
            expect = np.column_stack([expect, tail])
        wid = expect.shape[1]
        exp_slices.append((t, start, start + wid))
        got = np.asarray(M[:, start:start + wid], dtype=float) if M.shape[1] >= start + wid else None
        if got is None or M.shape[0] != n:
            world.fail("C", "group-width", "group", f"mode {mode!r}: group matrix has shape {M.shape}; term {t!r} "
                       f"should occupy columns {start}:{start + wid}", ctx)
            return
        if not np.allclose(got, expect, rtol=1e-10, atol=1e-12, equal_nan=True):
            bad = np.argwhere(~np.isclose(got, expect, rtol=1e-10, atol=1e-12, equal_nan=True))[0]
            r, c = int(bad[0]), int(bad[1])
            zone = "new-block" if c >= width else "existing-block"
            world.fail("C", "group-block", f"group:{zone}",
                       f"mode {mode!r}: term {t!r} row {r} col {c} ({zone}) is {got[r, c]!r}, the policy model "
                       f"says {expect[r, c]!r} (unseen group rows {fr}, unseen effect rows {er})", ctx)
            return
        start += wid
    if M.shape[1] != start:
        world.fail("C", "group-width", "group", f"group matrix has {M.shape[1]} columns, the policy model "
                   f"says {start}", ctx)
        return
    if obs["slices"] != exp_slices:
        world.fail("C", "group-slices", "slices", f"slices {obs['slices']} but the widened layout is {exp_slices}",
                   ctx)
        return
    exp_f = []
    for t, fname in zip(names, obs["factors"]):
        if fac_rows[t] and fname not in exp_f:
            exp_f.append(fname)
    if sorted(obs["fwnl"]) != sorted(exp_f) or len(set(obs["fwnl"])) != len(obs["fwnl"]):
        world.fail("C", "factors_with_new_levels", "fwnl",
                   f"factors_with_new_levels is {obs['fwnl']} but the factors with unseen groups are {exp_f}", ctx)
        return
    _expect_warnings(world, mode, n_warn, any_eff, any_fac, ctx)


def _expect_equal(world, outcome, obs, twin, info, part, ctx):
    from .executor import compare_obs

    if outcome == "raise":
        world.fail("C", "raise-without-unseen-level-in-part", f"{info['type']}@{info['site']}",
                   f"the {part} part uses none of the polluted variables {ctx['polluted']} yet raised "
                   f"{info['type']} at {info['site']}", ctx)
        return
    for k in ("M", "slices"):
        d = compare_obs(obs[k], twin[k], f"{part}.{k}")
        if d and k == "M":
            a, b = np.asarray(obs["M"], dtype=float), np.asarray(twin["M"], dtype=float)
            if a.shape == b.shape and np.allclose(a, b, rtol=1e-10, atol=1e-12, equal_nan=True):
                d = None
        if d:
            world.fail("C", "unrelated-variable-changed-result", part,
                       f"the {part} part uses none of the polluted variables yet differs from the clean "
                       f"evaluation: {d}", ctx)
            return


def _expect_warnings(world, mode, n_warn, predictor_affected, group_only, ctx):
    # only the cases the statement speaks about: an unseen level is present in this part
    if mode == "silent" and n_warn and (predictor_affected or group_only):
        world.fail("C", "warning-in-silent-mode", "warnings",
                   f"mode 'silent' emitted {n_warn} formulae warning(s)", ctx)
    if mode == "warning" and predictor_affected and not n_warn:
        world.fail("C", "no-warning-in-warning-mode", "warnings",
                   "mode 'warning': unseen predictor level was zeroed without a warning", ctx)
