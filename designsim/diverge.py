"""Oracle H support: decide whether two executions of the SAME scenario in two
interpreter processes really differ in an observable, or only in a digest.

The scenario is a pure function of the run seed (its digest is compared
first), and the harness only observes; so a semantic difference
(compare_obs over the dumped observables of every step) between two processes
is nondeterminism of formulae itself: hash-seed dependent when the two
processes differ in PYTHONHASHSEED, address/allocation dependent when they do
not.  A digest difference without a semantic difference is a harness bug.
"""
import base64
import os
import pickle

from .obs import compare_obs
from .pool import Pool


def run_under(hashseed, job, repo=None, log=None):
    pool = Pool(1, [hashseed], log_path=log or os.devnull, repo=repo)
    try:
        j = dict(job, job_id="div", dump=True, events=True, want_scenario=True)
        return pool.map([j])["div"]
    finally:
        pool.close()


def semantic_divergence(ra, rb):
    """(step, detail) of the first real difference between two results, or None."""
    da = pickle.loads(base64.b64decode(ra["dump"]))
    db = pickle.loads(base64.b64decode(rb["dump"]))
    for i, (ea, eb) in enumerate(zip(ra["events"], rb["events"])):
        if (ea["op"], ea["outcome"]) != (eb["op"], eb["outcome"]):
            return i, f"outcome {ea['op']}:{ea['outcome']} vs {eb['op']}:{eb['outcome']}"
        if ea["outcome"].startswith("raise") or ea["outcome"] == "raise":
            if ea.get("sd") != eb.get("sd"):
                return i, f"raised {ea.get('sd')} vs {eb.get('sd')}"
        if i < len(da) and i < len(db):
            d = compare_obs(da[i], db[i], f"step{i}")
            if d:
                return i, d
    if len(ra["events"]) != len(rb["events"]):
        return min(len(ra["events"]), len(rb["events"])), "histories end at different steps"
    return None


def investigate(job, hs_a, hs_b, repo=None, log=None, tries=4):
    """status: 'formulae' (semantic difference found), 'harness' (digests differ, observables do not,
    or the generated scenarios differ), 'unreproduced' (no difference in `tries` fresh process pairs)."""
    last = None
    for _ in range(tries):
        ra = run_under(hs_a, job, repo, log)
        rb = run_under(hs_b, job, repo, log)
        for r in (ra, rb):
            if "harness_error" in r:
                return {"status": "harness", "detail": r["harness_error"]}
        if ra["scenario_digest"] != rb["scenario_digest"]:
            return {"status": "harness", "detail": "the generated scenario differs between the two processes"}
        sem = semantic_divergence(ra, rb)
        if sem is not None:
            step, detail = sem
            return {"status": "formulae", "step": step, "detail": detail, "scenario": ra["scenario"],
                    "hashseeds": [hs_a, hs_b]}
        if (ra["digest"], ra["ndigest"]) != (rb["digest"], rb["ndigest"]):
            last = {"status": "harness", "detail": "event digests differ although every dumped observable "
                    "compares equal: the digest is not canonical"}
            return last
    return last or {"status": "unreproduced"}
