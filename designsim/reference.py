"""Process structure of one worker.

    P  (worker main, a fresh interpreter with its own PYTHONHASHSEED)
       imports the prelude and formulae but NEVER runs a formulae function:
       it is the pristine process-state.
    R  = fork(P) per run: the long-lived simulated world of that run.
    G  = fork(P) per reference request: "the operation executed in a fresh
       process-state" (oracle A).  G sets the mode, builds the design from
       scratch, performs only the judged operation and pipes back the outcome.

Every run therefore starts from the same pristine state (results are keyed by
run seed alone, whatever ran before in the same worker), and the reference can
not be polluted by anything the world did.  Reference answers are pure
functions of the request and are cached in P.
"""
import hashlib
import os
import pickle
import select
import signal
import struct
import sys
import time


def _send(fd, obj):
    data = pickle.dumps(obj, protocol=pickle.HIGHEST_PROTOCOL)
    view = memoryview(struct.pack("<Q", len(data)) + data)
    while view:
        n = os.write(fd, view[:65536])
        view = view[n:]


def _recv_exact(fd, n):
    chunks = []
    while n:
        b = os.read(fd, min(n, 1 << 20))
        if not b:
            raise EOFError("pipe closed")
        chunks.append(b)
        n -= len(b)
    return b"".join(chunks)


def _recv(fd):
    (n,) = struct.unpack("<Q", _recv_exact(fd, 8))
    return pickle.loads(_recv_exact(fd, n))


class RefClient:
    """Used inside R: asks P for a fresh-process execution."""

    def __init__(self, wfd, rfd):
        self.wfd = wfd
        self.rfd = rfd
        self.requests = 0

    def ask(self, req):
        self.requests += 1
        _send(self.wfd, ("ref", req))
        out = _recv(self.rfd)
        if isinstance(out, dict) and "harness_error" in out:
            raise RuntimeError("reference executor: " + out["harness_error"])
        return out


class Host:
    """Lives in P."""

    def __init__(self):
        self.cache = {}
        self.ref_requests = 0
        self.ref_hits = 0

    def _grandchild(self, req):
        r, w = os.pipe()
        pid = os.fork()
        if pid == 0:
            os.close(r)
            try:
                signal.alarm(120)
                from . import executor

                out = executor.run_reference(req)
            except BaseException as e:  # noqa: BLE001
                out = {"harness_error": f"{type(e).__name__}: {e}"}
            try:
                _send(w, out)
            finally:
                os._exit(0)
        os.close(w)
        try:
            out = _recv(r)
        except EOFError:
            out = {"harness_error": "grandchild died without an answer"}
        os.close(r)
        os.waitpid(pid, 0)
        return out

    def reference(self, req):
        key = hashlib.sha256(pickle.dumps(req, protocol=4)).digest()
        self.ref_requests += 1
        if key in self.cache:
            self.ref_hits += 1
            return self.cache[key]
        out = self._grandchild(req)
        if len(self.cache) > 3000:
            self.cache.clear()
        if not (isinstance(out, dict) and "harness_error" in out):
            self.cache[key] = out
        return out

    def run(self, fn, arg, timeout=120.0):
        """Fork R, run fn(arg, refclient) there, serve its reference requests."""
        req_r, req_w = os.pipe()  # R -> P
        rep_r, rep_w = os.pipe()  # P -> R
        sys.stdout.flush()
        sys.stderr.flush()
        pid = os.fork()
        if pid == 0:
            os.close(req_r)
            os.close(rep_w)
            try:
                try:
                    out = fn(arg, RefClient(req_w, rep_r))
                except BaseException as e:  # noqa: BLE001
                    import traceback

                    out = {"harness_error": f"{type(e).__name__}: {e}", "trace": traceback.format_exc()[-3000:]}
                try:
                    _send(req_w, ("done", out))
                except BaseException as e:  # noqa: BLE001 - e.g. an unpicklable result
                    import traceback

                    _send(req_w, ("done", {"harness_error": f"cannot send the result: {type(e).__name__}: {e}",
                                           "trace": traceback.format_exc()[-3000:]}))
            finally:
                os._exit(0)
        os.close(req_w)
        os.close(rep_r)
        deadline = time.monotonic() + timeout
        result = None
        try:
            while True:
                left = deadline - time.monotonic()
                if left <= 0:
                    result = {"harness_error": f"run timed out after {timeout}s"}
                    break
                ready, _, _ = select.select([req_r], [], [], left)
                if not ready:
                    continue
                try:
                    kind, payload = _recv(req_r)
                except EOFError:
                    try:
                        _, status = os.waitpid(pid, 0)
                        how = f"signal {os.WTERMSIG(status)}" if os.WIFSIGNALED(status) else \
                            f"exit status {os.WEXITSTATUS(status)}"
                        reaped = True
                    except OSError:
                        how = "unknown status"
                    result = {"harness_error": f"run process died without an answer ({how})"}
                    break
                if kind == "ref":
                    _send(rep_w, self.reference(payload))
                else:
                    result = payload
                    break
        finally:
            try:
                os.kill(pid, signal.SIGKILL)
            except OSError:
                pass
            try:
                os.waitpid(pid, 0)
            except OSError:
                pass
            os.close(req_r)
            os.close(rep_w)
        return result
