"""Minimisation of a failing scenario before it is reported: truncate, ddmin
over ops (dangling references are skipped by the executor, so every subset of
the op list is a valid scenario), drop faults, shrink new frames row by row,
drop additive items of formulas, drop unused frames.  A candidate is accepted
iff it still violates the same property through the same oracle and failure
kind."""
import copy
import json
import re
import time

from . import frames as F


def _sig(v):
    return (v["property"], v["oracle"], v["kind"])


class Minimiser:
    def __init__(self, pool, oracles, target_sig, known=(), budget_s=60.0):
        self.pool = pool
        self.oracles = oracles
        self.sig = target_sig
        self.known = list(known)
        self.deadline = time.monotonic() + budget_s
        self.tried = 0
        self.last_hashseed = None  # hash seed of the worker that confirmed the latest accepted candidate

    def test_many(self, cands):
        """Returns index of the first candidate (in order) that still fails, with its result."""
        if not cands or time.monotonic() > self.deadline:
            return None, None
        jobs = [{"kind": "scenario", "job_id": f"m{self.tried + i}", "scenario": c, "oracles": self.oracles,
                 "known": self.known, "timeout": 60} for i, c in enumerate(cands)]
        self.tried += len(cands)
        res = self.pool.map(jobs)
        for i, j in enumerate(jobs):
            r = res.get(j["job_id"])
            if r and r.get("violation") and _sig(r["violation"]) == self.sig:
                self.last_hashseed = r.get("worker_hashseed")
                return i, r
        return None, None

    def run(self, scenario, violation):
        sc = copy.deepcopy(scenario)
        sc["ops"] = sc["ops"][: violation["step"] + 1]
        best_v = violation
        # confirm the truncated scenario still fails
        i, r = self.test_many([sc])
        if i is None:
            return scenario, violation, {"minimised": False, "tried": self.tried}
        best_v = r["violation"]
        # ddmin over ops
        n = 2
        while len(sc["ops"]) >= 2 and time.monotonic() < self.deadline:
            ops = sc["ops"]
            size = max(1, len(ops) // n)
            chunks = [(s, min(len(ops), s + size)) for s in range(0, len(ops), size)]
            cands = []
            for a, b in chunks:
                c = copy.deepcopy(sc)
                c["ops"] = ops[:a] + ops[b:]
                if c["ops"]:
                    cands.append(c)
            i, r = self.test_many(cands)
            if i is not None:
                sc = cands[i]
                sc["ops"] = sc["ops"][: r["violation"]["step"] + 1]
                best_v = r["violation"]
                n = max(2, n - 1)
            elif size == 1:
                break
            else:
                n = min(len(ops), n * 2)
        # interleavings: issue the nested operation AFTER its host instead of inside it; kept only when the same
        # violation persists (then the violation does not need the interleaving)
        for k in range(len(sc["ops"])):
            if sc["ops"][k].get("nested") and time.monotonic() < self.deadline:
                c = copy.deepcopy(sc)
                inner = c["ops"][k].pop("nested")
                c["ops"].insert(k + 1, inner)
                i, r = self.test_many([c])
                if i is not None:
                    sc, best_v = c, r["violation"]
                    sc["ops"] = sc["ops"][: r["violation"]["step"] + 1]
                    break
        # drop faults
        for k in range(len(sc["ops"])):
            if sc["ops"][k].get("fault"):
                c = copy.deepcopy(sc)
                c["ops"][k]["fault"] = None
                i, r = self.test_many([c])
                if i is not None:
                    sc, best_v = c, r["violation"]
        # replace sweeps restricted to the failing point
        sw = (best_v.get("extra") or {}).get("sweep")
        if sw:
            for k in range(len(sc["ops"])):
                if sc["ops"][k]["op"].startswith("sweep"):
                    c = copy.deepcopy(sc)
                    c["ops"][k]["ks"] = [sw["k"]]
                    c["ops"][k]["flavours"] = [sw["flavour"]]
                    c["ops"][k].pop("alternate", None)
                    i, r = self.test_many([c])
                    if i is not None:
                        sc, best_v = c, r["violation"]
        # drop additive items of formulas
        for k in range(len(sc["ops"])):
            if sc["ops"][k]["op"] != "build":
                continue
            changed = True
            while changed and time.monotonic() < self.deadline:
                changed = False
                text = sc["ops"][k]["formula"]
                cands = []
                for t in _drop_item_variants(text):
                    c = copy.deepcopy(sc)
                    c["ops"][k]["formula"] = t
                    cands.append(c)
                i, r = self.test_many(cands)
                if i is not None:
                    sc, best_v = cands[i], r["violation"]
                    changed = True
        # shrink new frames (rows): remove chunks of rows, halving the chunk size (ddmin over row positions)
        def without_rows(base, k, drop):
            c = copy.deepcopy(base)
            cop = c["ops"][k]
            fid = cop["frame"]
            if any((o.get("nested") or {}).get("frame") == fid for o in c["ops"]) or cop.get("nested"):
                return None  # a frame also read by an interleaved operation keeps its rows
            nrows = F.n_rows(c["frames"][fid])
            keep = [j for j in range(nrows) if j not in drop]
            if not keep:
                return None
            c["frames"][fid] = F.take_rows(c["frames"][fid], keep)
            remap = {old: new for new, old in enumerate(keep)}
            if cop.get("kind") == "rows" and cop.get("tpos") is not None:
                pairs = [(t, i) for t, i in zip(cop["tpos"], cop["idx"]) if t in remap]
                cop["tpos"] = [remap[t] for t, _ in pairs]
                cop["idx"] = [i for _, i in pairs]
            elif cop.get("kind") == "rows":
                cop["idx"] = [cop["idx"][j] for j in keep]
            if cop.get("kind") == "unseen":
                c["frames"][cop["twin"]] = F.take_rows(c["frames"][cop["twin"]], keep)
                cop["polluted"] = {v: [remap[x] for x in rows if x in remap] for v, rows in cop["polluted"].items()}
            # other ops evaluating the same frame object describe the same rows
            for k2, o2 in enumerate(c["ops"]):
                if k2 != k and o2.get("frame") == fid and o2["op"] == "eval":
                    for key in ("idx", "tpos", "polluted"):
                        if key in cop:
                            o2[key] = copy.deepcopy(cop[key])
            return c

        for k in range(len(sc["ops"])):
            op = sc["ops"][k]
            if op["op"] != "eval" or time.monotonic() > self.deadline:
                continue
            fid = op["frame"]
            chunk = max(1, F.n_rows(sc["frames"][fid]) // 2)
            while chunk >= 1 and F.n_rows(sc["frames"][fid]) > 1 and time.monotonic() < self.deadline:
                nrows = F.n_rows(sc["frames"][fid])
                cands = []
                for a0 in range(0, nrows, chunk):
                    c = without_rows(sc, k, set(range(a0, min(nrows, a0 + chunk))))
                    if c is not None:
                        cands.append(c)
                    if len(cands) >= 16:
                        break
                i, r = self.test_many(cands)
                if i is not None:
                    sc, best_v = cands[i], r["violation"]
                    chunk = min(chunk, max(1, F.n_rows(sc["frames"][fid]) // 2))
                else:
                    chunk //= 2
        # shrink training frames: rows no evaluation refers to, columns no formula uses
        roots = {op["id"]: op for op in sc["ops"] if op["op"] in ("build", "rebuild") and "frame" in op}
        has_nested = any(op.get("nested") for op in sc["ops"])
        for tid in sorted(set(op["frame"] for op in roots.values())):
            if time.monotonic() > self.deadline or has_nested:
                break  # (row positions held by nested operations are not remapped: leave training frames alone)
            ev_ops = [k for k, op in enumerate(sc["ops"]) if op["op"] == "eval" and op.get("kind") == "rows"
                      and roots.get(op.get("root"), {}).get("frame") == tid]
            referenced = set(i for k in ev_ops for i in sc["ops"][k]["idx"])
            free = [i for i in range(F.n_rows(sc["frames"][tid])) if i not in referenced]
            chunk = max(1, len(free) // 2)
            while free and chunk >= 1 and time.monotonic() < self.deadline:
                progressed = False
                for a in range(0, len(free), chunk):
                    drop = set(free[a:a + chunk])
                    n = F.n_rows(sc["frames"][tid])
                    if n - len(drop) < 2:
                        continue
                    keep = [i for i in range(n) if i not in drop]
                    remap = {old: new for new, old in enumerate(keep)}
                    c = copy.deepcopy(sc)
                    c["frames"][tid] = F.take_rows(c["frames"][tid], keep)
                    for k in ev_ops:
                        c["ops"][k]["idx"] = [remap[i] for i in c["ops"][k]["idx"]]
                    i, r = self.test_many([c])
                    if i is not None:
                        sc, best_v = c, r["violation"]
                        free = [remap[x] for x in free if x not in drop]
                        progressed = True
                        break
                if not progressed:
                    chunk //= 2
        used_cols = set()
        for op in [oo for t in sc["ops"] for oo in (t, t.get("nested")) if oo]:
            if "fm" in op:
                used_cols |= set(op["fm"]["used"])
        if used_cols:
            c = copy.deepcopy(sc)
            for fid, spec in c["frames"].items():
                kept = [col for col in spec["cols"] if col[0] in used_cols or col[0] in ("k", "f", "x", "z", "w")]
                if kept:
                    spec["cols"] = kept
            i, r = self.test_many([c])
            if i is not None:
                sc, best_v = c, r["violation"]
        # drop unused frames and clients' leftovers
        used = set()
        for op in [oo for t in sc["ops"] for oo in (t, t.get("nested")) if oo]:
            for key in ("frame", "twin"):
                if op.get(key):
                    used.add(op[key])
        # keep the first training frame: namespace constants are derived from it
        tids = sorted([f for f in sc["frames"] if f.startswith("T")], key=lambda s: int(s[1:]))
        if tids:
            used.add(tids[0])
        c = copy.deepcopy(sc)
        c["frames"] = {f: v for f, v in c["frames"].items() if f in used}
        i, r = self.test_many([c])
        if i is not None:
            sc, best_v = c, r["violation"]
        for j, op in enumerate(sc["ops"]):
            op["n"] = j
        return sc, best_v, {"minimised": True, "tried": self.tried,
                            "ops_before": len(scenario["ops"]), "ops_after": len(sc["ops"])}


def _split_top(text, sep=" + "):
    parts, depth, cur, i = [], 0, "", 0
    while i < len(text):
        ch = text[i]
        if ch in "([{":
            depth += 1
        elif ch in ")]}":
            depth -= 1
        if depth == 0 and text.startswith(sep, i):
            parts.append(cur)
            cur = ""
            i += len(sep)
            continue
        cur += ch
        i += 1
    parts.append(cur)
    return parts


def _drop_item_variants(text):
    lhs, tilde, rhs = text.partition(" ~ ")
    if not tilde:
        lhs, rhs = "", text
    items = _split_top(rhs)
    out = []
    if len(items) > 1:
        for j in range(len(items)):
            rest = items[:j] + items[j + 1:]
            if all(re.fullmatch(r"\s*(0|-1)\s*", x) for x in rest):
                continue
            out.append((lhs + " ~ " if tilde else "") + " + ".join(rest))
    return out


def dumps(obj):
    return json.dumps(obj, indent=1, sort_keys=False)
