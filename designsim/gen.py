"""Seeded workload generator: one integer -> one scenario (clients, frames,
explicit op list with faults).  Nothing here looks at formulae's outputs; the
scenario is a pure function of (run_seed, property, tier, disabled families).

The generator has its own tiny formula grammar (it does not use formulae's
parser) and keeps, for every formula, which data columns it uses and which of
them act as categorical predictors / effect variables / grouping factors, so
that the oracles can be computed independently of the code under test.
"""
import random

from . import frames as F

NUM_COLS = ["x", "z", "w"]
STR_COLS = ["f", "g", "h"]
LEVELS = {
    "f": ["Fa", "Fb", "Fc", "Fd", "Fe", "Ff", "Fg", "Fh", "Fi"],
    "g": ["Ga", "Gb", "Gc", "Gd", "Ge", "Gf", "Gg", "Gh", "Gi", "Gj", "Gk", "Gl"],
    "h": ["Ha", "Hb", "Hc", "Hd", "He", "Hf"],
    "c": ["Cz", "Cm", "Ca", "Cq", "Cb", "Cy"],  # category order differs from sorted order
    "o": ["Olow", "Omid", "Ohigh", "Otop", "Oultra"],  # ordered
    "y2": ["Ya", "Yb", "Yc"],
}
UNSEEN = {"dz": 9.75, "f1": "Qzz", "f": "Fzz", "g": "Gzz", "h": "Hzz", "c": "Czz", "o": "Ozz", "k": 97}
# several different unseen labels per variable: sorting after, before and between the known ones
UNSEEN_MORE = {"dz": [9.75, -1.25], "f1": ["Qzz", "Aa1"], "f": ["Fzz", "Aaf", "Fbz"], "g": ["Gzz", "Aag", "Gbz"], "h": ["Hzz", "Aah", "Hbz"],
               "c": ["Czz", "Aac", "Cnn"], "o": ["Ozz", "Aao", "Onn"], "k": [97, -5, 55]}
MODES = ["error", "warning", "silent"]
KEY = "EVAL_UNSEEN_CATEGORIES"

ALL_FAMILIES = [
    "center", "scale", "bs", "poly", "ut", "uf", "nested", "npcall", "offset", "binary",
    "catstr", "catcat", "catord", "box", "box_contrast", "box_levels", "box_ordered",
    "inter", "star", "slash", "power", "group", "group_slope", "group_cat",
    "group_inter_factor", "group_multi_factor", "group_transform", "group_box",
    "resp_level", "resp_prop", "resp_cat", "resp_none", "nointercept", "extra", "dotted", "onelevel", "npwarn",
    "paren", "minus", "catcall", "nestedbox", "knots", "floatcat", "nsenc", "innerbounds", "userenc",
]


class Item:
    """One additive item of a right-hand side."""

    def __init__(self, text, used=(), cats=(), fams=(), group=None):
        self.text = text
        self.used = set(used)
        self.cats = set(cats)  # columns acting as categorical predictors in common terms
        self.fams = set(fams)
        # for group items: {"effect_cats": set, "factor": [cols]}
        self.group = group

    def __repr__(self):
        return self.text


def mix(*parts):
    """Deterministic 63-bit mix of integers/strings (hash-seed independent)."""
    import hashlib

    h = hashlib.sha256(repr(parts).encode()).digest()
    return int.from_bytes(h[:8], "big") >> 1


class Gen:
    def __init__(self, run_seed, prop, tier="quick", disabled=(), force=None):
        self.run_seed = run_seed
        self.prop = prop
        self.tier = tier
        self.rng = random.Random(run_seed)
        self.disabled = set(disabled)
        self.force = force or {}
        self.frames = {}
        self.ops = []
        self._fid = 0
        self._oid = 0
        self._has_ec = False

    # ------------------------------------------------------------------ swarm
    def swarm(self):
        r = self.rng
        fams = [f for f in ALL_FAMILIES if f not in self.disabled]
        # each family is enabled with its own probability per run (swarm testing)
        p = r.choice([0.35, 0.5, 0.7, 0.9])
        enabled = set(f for f in fams if r.random() < p)
        # property-specific bias
        if self.prop == "C06":
            for f in r.sample(["center", "scale", "bs", "poly", "ut", "nested", "box"], 3):
                if f not in self.disabled:
                    enabled.add(f)
        if self.prop in ("C10", "C17"):
            for f in ["group", "catstr"]:
                enabled.add(f)
            if r.random() < 0.6:
                enabled.add("group_slope")
            if r.random() < 0.5:
                enabled.add("group_cat")
            if r.random() < 0.4:
                enabled.add("group_inter_factor")
        for f in self.force.get("families_add", []):
            enabled.add(f)
        if not enabled & {"catstr", "catcat", "catord", "box"}:
            enabled.add("catstr")
        cfg = {
            "families": sorted(enabled),
            "n_clients": r.choice([1, 1, 2, 3]),
            "n_train": r.choice([1, 2, 2, 3]),
            "rows": r.choice([(4, 8), (8, 25), (8, 25), (26, 60), (8, 25), (26, 60), (90, 260)]),
            "nlev": r.choice([2, 3, 3, 4, 3, 4, 7, 11]),
            "n_ops": r.randint(5, 40) if self.tier == "thorough" else r.randint(5, 28),
            "max_items": r.choice([1, 2, 3, 4, 2, 3, 6]),
            "with_faults": r.random() < (0.4 if self.prop == "C07" else 0.3),
            "p_inject": r.choice([0.1, 0.2, 0.35]),
            "nan_train": r.random() < 0.25,
            "p_reuse": r.choice([0.0, 0.1, 0.25]),
            "w": {
                "build": r.choice([2, 3, 5]),
                "eval": r.choice([6, 8, 12]),
                "chain": r.choice([0, 2, 4]),
                "set_config": r.choice([1, 2, 4]) + (3 if self.prop == "C10" else 0),
                "refill": r.choice([0, 1, 2]),
                "loop": r.choice([0, 1, 2]),
                "register": r.choice([0, 0, 1]) if self.prop == "C07" else 0,
                "scribble": r.choice([0, 1, 2]),
                "drop": r.choice([0, 1]),
                "rebuild": r.choice([0, 1, 2]),
                "inspect": r.choice([0, 1, 2]) + (2 if self.prop == "C17" else 0),
                "describe": r.choice([0, 1]) if self.prop == "C07" else 0,
            },
            "kinds": {
                "rows": r.choice([3, 5, 8]) + (6 if self.prop == "C06" else 0),
                "fresh": r.choice([1, 2, 4]),
                "unseen": r.choice([1, 2, 4]) + (8 if self.prop == "C10" else 0)
                + (3 if self.prop == "C17" else 0),
                "broken": r.choice([0, 1, 2]),
            },
        }
        cfg.update(self.force.get("cfg", {}))
        if self.force.get("interleave"):
            cfg["n_train"] = max(2, cfg["n_train"])  # a nested build can always take OTHER data than its host
        return cfg

    # ----------------------------------------------------------------- frames
    def new_frame_id(self, prefix):
        self._fid += 1
        return f"{prefix}{self._fid}"

    def train_frame(self, cfg, variant):
        r = self.rng
        lo, hi = cfg["rows"]
        n = r.randint(lo, hi)
        nlev = {}
        for v in ["f", "g", "h", "c", "o", "y2"]:
            nlev[v] = max(2, min(len(LEVELS[v]), cfg["nlev"] + r.choice([-1, 0, 0, 1])))
        nlev["y2"] = min(nlev["y2"], 3)
        nk = cfg.setdefault("nk", r.choice([2, 3, 4]))  # the same integer codes in every frame of a scenario
        cols = []
        loc = {c: r.choice([-50, -3, 0, 2, 40]) + 7 * variant for c in NUM_COLS + ["y"]}
        sc = {c: r.choice([0.5, 1, 3, 10]) for c in NUM_COLS + ["y"]}
        for c in ["y"] + NUM_COLS:
            vals = [round(loc[c] + sc[c] * r.gauss(0, 1), 3) for _ in range(n)]
            style = r.choices(["plain", "ties", "constant", "huge", "tiny", "zeros"], [16, 2, 1, 1, 1, 1])[0]
            if c != "y" and style == "ties":
                pool = [float(round(v)) for v in vals[:3]] or [0.0]
                vals = [r.choice(pool) for _ in range(n)]  # many exact ties (quantile knots coincide)
            elif c != "y" and style == "constant":
                vals = [vals[0]] * n  # zero variance
            elif c != "y" and style == "huge":
                vals = [round(v * 1e7, 1) for v in vals]
            elif c != "y" and style == "tiny":
                vals = [round(v * 1e-6, 12) for v in vals]
            elif c != "y" and style == "zeros":
                vals = [0.0 if r.random() < 0.4 else v for v in vals]
            cols.append([c, "float", vals, None])

        def levels_column(levels):
            # every level at least once when n allows, unequal counts otherwise
            vals = list(levels[: min(len(levels), n)])
            weights = [r.choice([1, 2, 5]) for _ in levels]
            while len(vals) < n:
                vals.append(r.choices(levels, weights)[0])
            r.shuffle(vals)
            return vals

        for c in STR_COLS:
            cols.append([c, "str", levels_column(LEVELS[c][: nlev[c]]), None])
        cats = LEVELS["c"][: nlev["c"]]
        cols.append(["c", "cat", levels_column(cats), {"categories": cats, "ordered": False}])
        ocats = LEVELS["o"][: nlev["o"]]
        cols.append(["o", "cat", levels_column(ocats), {"categories": ocats, "ordered": True}])
        # integer codes; in some frames the same codes arrive as floats (1.0, 2.0: a merge or a NaN upcast)
        alt = cfg.setdefault("k_float_alt", r.random() < 0.5)
        kkind = "float" if (alt and variant % 2 == 1) or (not alt and r.random() < 0.1) else "int"
        cols.append(["k", kkind, [float(v) if kkind == "float" else v for v in levels_column(list(range(1, nk + 1)))],
                     None])
        trials = [r.randint(1, 12) for _ in range(n)]
        cols.append(["t", "int", trials, None])
        cols.append(["s", "int", [r.randint(0, t) for t in trials], None])
        cols.append(["y2", "str", levels_column(LEVELS["y2"][: nlev["y2"]]), None])
        # a categorical with FLOAT levels, two of which differ only in the last bits (0.1 + 0.2 vs 0.3)
        cols.append(["dz", "float", levels_column([0.3, 0.1 + 0.2, 0.5, 1.5][: max(2, min(4, cfg["nlev"]))]), None])
        cols.append(["f1", "str", ["Only"] * n, None])  # a categorical with a single level (zero columns when reduced)
        cols.append(["m", "int", [r.randint(-3, 40) for _ in range(n)], None])  # integer-valued numeric predictor
        cols.append(["my col", "float", [round(5 + 2 * r.gauss(0, 1), 3) for _ in range(n)], None])  # needs backquotes
        cols.append(["u1", "float", [round(r.gauss(0, 1), 3) for _ in range(n)], None])
        cols.append(["u2", "str", [r.choice(["p", "q"]) for _ in range(n)], None])
        if cfg["nan_train"]:
            for _ in range(r.randint(1, 3)):
                c = r.choice(cols)
                if c[1] in ("float", "str") and n > 4:
                    c[2][r.randrange(n)] = None
        r.shuffle(cols)
        index = self.make_index(n)
        return {"cols": cols, "index": index}

    def make_index(self, n):
        r = self.rng
        kind = r.choice(["range", "range", "shuffled", "dups", "strings"])
        if kind == "range":
            return list(range(n))
        if kind == "shuffled":
            idx = list(range(100, 100 + n))
            r.shuffle(idx)
            return idx
        if kind == "dups":
            return [r.randrange(max(1, n // 2)) for _ in range(n)]
        return [f"r{r.randrange(n)}" for _ in range(n)]

    def levels_in(self, spec, colname, used_rows=None):
        c = F.col(spec, colname)
        vals = c[2] if used_rows is None else [c[2][i] for i in used_rows]
        return sorted(set(v for v in vals if v is not None), key=lambda v: (str(type(v)), v))

    # --------------------------------------------------------------- formulas
    def num_atom(self, fam, depth=0):
        r = self.rng
        v = r.choice(NUM_COLS)
        opts = [("plain", 4)]
        for name, wgt in [("center", 3), ("scale", 3), ("bs", 3), ("poly", 3), ("ut", 2),
                          ("uf", 2), ("nested", 3), ("npcall", 2)]:
            if name in fam:
                opts.append((name, wgt))
        if "extra" in fam and self._has_ec:
            opts.append(("extra", 2))
        if "dotted" in fam:
            opts.append(("dotted", 2))
        if "npwarn" in fam:
            opts.append(("npwarn", 2))
        kind = r.choices([o[0] for o in opts], [o[1] for o in opts])[0]
        if kind == "plain":
            if r.random() < 0.2:
                t, used = r.choice([("m", ["m"]), ("I(m > 3)", ["m"]), ("I(x > z)", ["x", "z"]), ("I(-x)", ["x"]),
                                    ("I(m ** 2)", ["m"]), ("`my col`", ["my col"]), ("center(`my col`)", ["my col"]),
                                    ("scale(`my col`):m", ["my col", "m"])])
                return Item(t, used, fams=["plainint"])
            return Item(v, [v])
        if kind == "npwarn":
            # emits a numpy RuntimeWarning and yields NaN/inf on part of the domain
            v2 = r.choice(NUM_COLS)
            t, used = r.choice([(f"np.log({v})", [v]), (f"np.sqrt({v})", [v]), (f"I({v} / (m - 3))", [v, "m"]),
                                (f"I(1 / ({v2} - {v2}))", [v2])])
            return Item(t, used, fams=["npwarn"])
        if kind == "dotted":
            return Item(r.choice([f"tools.f({v})", f"tools.sub.g({v})", f"center(tools.f({v}))",
                                  f"tools.sub.deep.er.h({v})"]), [v],
                        fams=["dotted"])
        if kind == "extra":
            return Item(r.choice([f"I({v} * ec)", f"center({v} + ec)"]), [v], fams=["extra"])
        if kind == "center":
            return Item(f"center({v})", [v], fams=["center"])
        if kind == "scale":
            fn = r.choice(["scale", "standardize"])
            return Item(f"{fn}({v})", [v], fams=["scale"])
        if kind == "bs":
            degree = r.choice([0, 1, 2, 3, 3])
            df = r.randint(max(3, degree + 1), 8)
            form = r.choice(["df", "df_degree", "pos", "intercept", "bounds"])
            if "innerbounds" in fam and r.random() < 0.35:
                # no inner knots (df = degree = 3), boundary knots at the quartiles of the first training frame
                return Item(f"bs({v}, df=3, lower_bound=lb_{v}, upper_bound=ub_{v})", [v], fams=["bs", "innerbounds"])
            if "knots" in fam and r.random() < 0.3:
                return Item(f"bs({v}, knots=kn_{v})", [v], fams=["bs", "knots"])
            if form == "bounds":
                return Item(f"bs({v}, df={max(df, 4)}, lower_bound=-2000, upper_bound=2000.5)", [v], fams=["bs"])
            if form == "df":
                degree = 3
                df = max(df, 3)
                return Item(f"bs({v}, df={df})", [v], fams=["bs"])
            if form == "pos":
                degree = 3
                return Item(f"bs({v}, {max(df, 3)})", [v], fams=["bs"])
            if form == "intercept":
                return Item(f"bs({v}, df={max(df, 4)}, intercept=True)", [v], fams=["bs"])
            return Item(f"bs({v}, df={df}, degree={degree})", [v], fams=["bs"])
        if kind == "poly":
            d = r.choice([1, 2, 3, 4])
            if r.random() < 0.25:
                return Item(f"poly({v}, {d}, raw=True)", [v], fams=["poly"])
            return Item(f"poly({v}, {d})", [v], fams=["poly"])
        if kind == "ut":
            return Item(f"ut({v})", [v], fams=["ut"])
        if kind == "uf":
            return Item(f"uf({v})", [v], fams=["uf"])
        if kind == "npcall":
            return Item(f"np.exp({v} / 100)", [v], fams=["npcall"])
        # nested
        v2 = r.choice(NUM_COLS)
        choices = [
            (f"I(center({v}) ** 2)", [v], ["nested", "center"]),
            (f"scale(np.exp({v} / 100) + 1)", [v], ["nested", "scale"]),
            (f"center(scale({v}))", [v], ["nested", "center", "scale"]),
            (f"I(center({v}) * scale({v2}))", [v, v2], ["nested", "center", "scale"]),
            (f"{{center({v}) + {v2}}}", [v, v2], ["nested", "center"]),
            (f"center(uf({v}))", [v], ["nested", "center", "uf"]),
            (f"scale(ut({v}))", [v], ["nested", "scale", "ut"]),
            (f"poly(center({v}), 2)", [v], ["nested", "poly", "center"]),
            (f"bs(scale({v}), df=4)", [v], ["nested", "bs", "scale"]),
        ]
        choices = [c for c in choices if not (set(c[2]) & self.disabled)]
        t, used, fams = r.choice(choices)
        return Item(t, used, fams=fams)

    def cat_atom(self, fam, avoid=()):
        r = self.rng
        opts = []
        if "catstr" in fam:
            opts += [("str", 5)]
        if "catcat" in fam:
            opts += [("c", 2)]
        if "catord" in fam:
            opts += [("o", 2)]
        if "box" in fam:
            opts += [("box", 3)]
        if "box_contrast" in fam:
            opts += [("box_contrast", 3)]
        if "box_levels" in fam:
            opts += [("box_levels", 2)]
        if "box_ordered" in fam:
            opts += [("box_ordered", 1)]
        if "onelevel" in fam:
            opts += [("onelevel", 1)]
        if "catcall" in fam:
            opts += [("catcall", 2)]
        if "floatcat" in fam:
            opts += [("floatcat", 2)]
        if "nsenc" in fam:
            opts += [("nsenc", 2)]
        if "userenc" in fam:
            opts += [("userenc", 2)]
        if "nestedbox" in fam:
            opts += [("nestedbox", 1)]
        if not opts:
            opts = [("str", 1)]
        kind = r.choices([o[0] for o in opts], [o[1] for o in opts])[0]
        if kind == "onelevel":
            return Item("f1", ["f1"], cats=["f1"], fams=["onelevel"])
        if kind == "floatcat":
            return Item(r.choice(["C(dz)", "S(dz)", "T(dz)", "C(dz, Sum)"]), ["dz"], cats=["dz"], fams=["box", "floatcat"])
        if kind == "userenc":
            # a user-defined Encoding subclass whose contrast matrix has fractional entries
            v = r.choice([c for c in STR_COLS if c not in avoid] or STR_COLS)
            return Item(f"C({v}, {r.choice(['Helmert', 'hel0'])})", [v], cats=[v], fams=["box", "userenc"])
        if kind == "nsenc":
            # an Encoding INSTANCE owned by the caller (tr0 = Treatment(), sm0 = Sum()) used by several designs
            v = r.choice([c for c in STR_COLS if c not in avoid] or STR_COLS)
            return Item(f"C({v}, {r.choice(['tr0', 'tr0', 'sm0'])})", [v], cats=[v], fams=["box", "nsenc"])
        if kind == "catcall":
            # a call whose result is a plain categorical (string) column, not a C()/T()/S() box
            v = r.choice([c for c in STR_COLS if c not in avoid] or STR_COLS)
            return Item(r.choice([f"I({v})", f"ucat({v})"]), [v], cats=[v], fams=["catcall"])
        if kind == "nestedbox":
            t, v = r.choice([("C(T(k, ref=2))", "k"), ("C(C(k), Sum)", "k"), ("C(S(f), Treatment)", "f"),
                             ("C(T(f, ref='Fb'), levels=lvf)", "f")])
            return Item(t, [v], cats=[v], fams=["box", "nestedbox"])
        if kind == "str":
            cand = [c for c in STR_COLS if c not in avoid] or STR_COLS
            v = r.choice(cand)
            return Item(v, [v], cats=[v], fams=["catstr"])
        if kind == "c":
            return Item("c", ["c"], cats=["c"], fams=["catcat"])
        if kind == "o":
            return Item("o", ["o"], cats=["o"], fams=["catord"])
        if kind == "box":
            v = r.choice(["k", "k", "f", "c"])
            fn = r.choice(["C", "C", "T", "S"])
            return Item(f"{fn}({v})", [v], cats=[v], fams=["box"])
        if kind == "box_contrast":
            t = r.choice([
                "C(k, Treatment(2))", "C(k, Treatment)", "C(k, Sum)", "T(k, ref=2)", "S(k, omit=1)",
                "C(f, Treatment('Fb'))", "T(f, ref='Fb')", "S(f, omit='Fa')", "C(f, Sum('Fb'))",
            ])
            v = "k" if "(k" in t else "f"
            return Item(t, [v], cats=[v], fams=["box", "box_contrast"])
        if kind == "box_levels":
            t = r.choice(["C(k, levels=lvk)", "C(f, levels=lvf)", "T(f, levels=lvf)"])
            v = "k" if "(k" in t else "f"
            return Item(t, [v], cats=[v], fams=["box", "box_levels"])
        return Item("C(o)", ["o"], cats=["o"], fams=["box", "box_ordered"])

    def common_item(self, fam):
        r = self.rng
        opts = [("num", 5), ("cat", 5)]
        if "inter" in fam:
            opts += [("cat:num", 2), ("cat:cat", 2), ("num:num", 1), ("three", 1), ("catcatcat", 1)]
        if "star" in fam:
            opts += [("cat*num", 2), ("cat*cat", 1)]
        if "slash" in fam:
            opts += [("slash", 2)]
        if "power" in fam:
            opts += [("power", 1)]
        if "paren" in fam:
            opts += [("paren", 2)]
        if "minus" in fam:
            opts += [("minus", 1)]
        if "offset" in fam:
            opts += [("offset", 1)]
        if "binary" in fam:
            opts += [("binary", 1)]
        kind = r.choices([o[0] for o in opts], [o[1] for o in opts])[0]
        if kind == "num":
            return self.num_atom(fam)
        if kind == "cat":
            return self.cat_atom(fam)
        if kind == "offset":
            t = r.choice(["offset(x)", "offset(z)", "offset(3)", "offset(np.exp(x / 100))"])
            used = [c for c in NUM_COLS if f"({c}" in t or f" {c} " in t or f"({c} " in t]
            return Item(t, used, fams=["offset"])
        if kind == "binary":
            t = r.choice(["binary(f, 'Fa')", "B(f)", "binary(k, 1)", "B(k, 2)"])
            v = "k" if "(k" in t else "f"
            return Item(t, [v], fams=["binary"])
        if kind in ("cat:num", "cat*num"):
            a, b = self.cat_atom(fam), self.num_atom(fam)
            op = ":" if kind == "cat:num" else "*"
            if r.random() < 0.5:
                return self._join(op, a, b, ["inter" if op == ":" else "star"])
            return self._join(op, b, a, ["inter" if op == ":" else "star"])
        if kind in ("cat:cat", "cat*cat"):
            a = self.cat_atom(fam)
            b = self.cat_atom(fam, avoid=a.used)
            if b.used & a.used:
                return a
            op = ":" if kind == "cat:cat" else "*"
            return self._join(op, a, b, ["inter" if op == ":" else "star"])
        if kind == "num:num":
            a, b = self.num_atom(fam), self.num_atom(fam)
            if a.text == b.text:
                return a
            return self._join(":", a, b, ["inter"])
        if kind == "catcatcat":
            # three or four categoricals, optionally times a numeric: lower-order margins are absent,
            # so formulae has to insert extra terms for full-rankness
            pool = [Item(v, [v], cats=[v], fams=["catstr"]) for v in STR_COLS]
            if "catcat" in fam:
                pool.append(Item("c", ["c"], cats=["c"], fams=["catcat"]))
            if "box" in fam:
                pool.append(Item("C(k)", ["k"], cats=["k"], fams=["box"]))
            r.shuffle(pool)
            parts = pool[: r.choice([3, 3, 4]) if len(pool) >= 4 else 3]
            it = parts[0]
            for p in parts[1:]:
                it = self._join(":", it, p, ["inter", "inter3"])
            if r.random() < 0.3:
                it = self._join(":", it, self.num_atom(fam), ["inter"])
            return it
        if kind == "three":
            a = self.cat_atom(fam)
            b = self.cat_atom(fam, avoid=a.used)
            c = self.num_atom(fam)
            if b.used & a.used:
                return self._join(":", a, c, ["inter"])
            return self._join(":", self._join(":", a, b, ["inter"]), c, ["inter"])
        if kind == "paren":
            # an operator applied to a parenthesised sum: the Model-level operator methods
            a = self.cat_atom(fam)
            b = self.cat_atom(fam, avoid=a.used)
            c = self.num_atom(fam)
            if b.used & a.used:
                b = self.num_atom(fam)
            if b.text == c.text or (b.used & a.used):
                return a
            op = r.choice([":", "*", "/"])
            sep = ":" if op == ":" else f" {op} "
            if r.random() < 0.5:
                text = f"{a.text}{sep}({b.text} + {c.text})"
            else:
                text = f"({a.text} + {b.text}){sep}{c.text}"
            return Item(text, a.used | b.used | c.used, a.cats | b.cats | c.cats, a.fams | b.fams | c.fams | {"paren"})
        if kind == "minus":
            a = self.cat_atom(fam)
            b = self.cat_atom(fam, avoid=a.used) if r.random() < 0.5 else self.num_atom(fam)
            if b.used & a.used:
                return a
            which = r.randrange(3)
            if which == 1:
                # b is added and removed again: the model (and the set of used columns) is that of a alone
                return Item(f"{a.text} + {b.text} - {b.text}", a.used, a.cats, a.fams | {"minus"})
            text = [f"{a.text} * {b.text} - {a.text}:{b.text}", None, f"({a.text} + {b.text}) ** 2 - {a.text}"][which]
            return Item(text, a.used | b.used, a.cats | b.cats, a.fams | b.fams | {"minus"})
        if kind == "slash":
            a = self.cat_atom(fam)
            b = self.cat_atom(fam, avoid=a.used) if r.random() < 0.5 else self.num_atom(fam)
            if b.used & a.used:
                return a
            return self._join("/", a, b, ["slash"])
        # power
        a = self.cat_atom(fam)
        b = self.cat_atom(fam, avoid=a.used) if r.random() < 0.6 else self.num_atom(fam)
        if b.used & a.used:
            return a
        it = Item(f"({a.text} + {b.text}) ** 2", a.used | b.used, a.cats | b.cats,
                  a.fams | b.fams | {"power"})
        return it

    def _join(self, op, a, b, fams):
        sep = op if op == ":" else f" {op} "
        return Item(f"{a.text}{sep}{b.text}", a.used | b.used, a.cats | b.cats,
                    a.fams | b.fams | set(fams))

    def group_item(self, fam):
        r = self.rng
        # factor
        fopts = [("g", 5), ("h", 2)]
        if "group_inter_factor" in fam:
            fopts += [("g:h", 3)]
        if "group_multi_factor" in fam:
            fopts += [("g + h", 1), ("g / h", 1)]
        if "group_box" in fam:
            fopts += [("C(k)", 1)]
        factor = r.choices([o[0] for o in fopts], [o[1] for o in fopts])[0]
        fcols = [c for c in ["g", "h", "k"] if c in factor.replace("C(", "")]
        fams = {"group"}
        if factor == "g:h":
            fams.add("group_inter_factor")
        if factor in ("g + h", "g / h"):
            fams.add("group_multi_factor")
        if factor == "C(k)":
            fams.add("group_box")
        # effect
        eopts = [("1", 5)]
        if "group_slope" in fam:
            eopts += [("num", 4), ("0+num", 2), ("num+num", 1)]
        if "group_cat" in fam:
            eopts += [("cat", 2), ("0+cat", 2)]
            if "inter" in fam:
                eopts += [("cat:cat", 1)]
        if "group_transform" in fam:
            eopts += [("transform", 3)]
        if "onelevel" in fam:
            eopts += [("onelevel", 2)]
        ek = r.choices([o[0] for o in eopts], [o[1] for o in eopts])[0]
        used = set(fcols)
        ecats = set()
        if ek == "1":
            etext = "1"
        elif ek in ("num", "0+num"):
            v = r.choice(NUM_COLS)
            etext = v if ek == "num" else r.choice([f"0 + {v}", f"1 + {v}", f"0 + 1 + {v}", f"-1 + {v}"])
            used.add(v)
            fams.add("group_slope")
        elif ek == "num+num":
            v1, v2 = r.sample(NUM_COLS, 2)
            etext = f"{v1} + {v2}"
            used |= {v1, v2}
            fams.add("group_slope")
        elif ek in ("cat", "0+cat"):
            v = r.choice(["f", "c"] if "catcat" in fam else ["f"])
            etext = v if ek == "cat" else f"0 + {v}"
            used.add(v)
            ecats.add(v)
            fams.add("group_cat")
        elif ek == "onelevel":
            etext = r.choice(["f1", "0 + f1"])
            used.add("f1")
            ecats.add("f1")
            fams |= {"group_cat", "onelevel"}
        elif ek == "cat:cat":
            etext = "0 + f:c"
            used |= {"f", "c"}
            ecats |= {"f", "c"}
            fams |= {"group_cat", "inter"}
        else:
            a = self.num_atom(fam - {"plain"})
            etext = a.text if r.random() < 0.6 else f"0 + {a.text}"
            used |= a.used
            fams |= a.fams | {"group_transform"}
        text = f"({etext} | {factor})"
        if factor == "g + h" and ek not in ("1",) and not etext.startswith(("0", "-1")) and r.random() < 0.5:
            # remove the implicit group-specific intercept of ONE of the factors again
            text += f" - (1 | {r.choice(['g', 'h'])})"
            fams.add("gminus")
        it = Item(text, used, (), fams,
                  group={"effect_cats": sorted(ecats), "factor": fcols, "factor_text": factor})
        return it

    def formula(self, cfg):
        r = self.rng
        fam = set(cfg["families"])
        n_items = r.randint(1, cfg["max_items"])
        items = []
        seen = set()
        want_group = "group" in fam and r.random() < (0.75 if self.prop in ("C10", "C17") else 0.45)
        for i in range(n_items):
            if want_group and (i == n_items - 1 or r.random() < 0.3):
                it = self.group_item(fam)
            else:
                it = self.common_item(fam)
            if it.text in seen:
                continue
            seen.add(it.text)
            items.append(it)
        if want_group and not any(it.group for it in items):
            items.append(self.group_item(fam))
        if self.force.get("interleave") and r.random() < 0.7 and not any("uf(" in it.text or "ut(" in it.text for it in items):
            # interleave phase: the formula calls the user function through which another operation is issued,
            # at a random position among the terms (work done before it and work left to do after it)
            v = r.choice(NUM_COLS)
            fn = r.choice(["uf", "uf", "ut"])  # plain user function / user-registered stateful transform
            if r.random() < 0.35:
                # ... on the expression side of a group-specific term: the other operation runs in the middle of
                # the GROUP part (between the terms of one factor and those of another)
                factor = r.choice(["g", "h"])
                etext = r.choice([f"{fn}({v})", f"0 + {fn}({v})"])
                it = Item(f"({etext} | {factor})", [v, factor], (), ["group", "group_transform", fn],
                          group={"effect_cats": [], "factor": [factor], "factor_text": factor})
            else:
                it = Item(f"{fn}({v})", [v], fams=[fn])
            items.insert(r.randrange(len(items) + 1), it)
        # response
        ropts = [("y", 6)]
        if "resp_level" in fam:
            ropts += [("y2[Ya]", 2)]
        if "resp_prop" in fam:
            ropts += [("p(s, t)", 1), ("prop(s, 12)", 1)]
        if "resp_cat" in fam:
            ropts += [("y2", 1)]
        if "resp_none" in fam:
            ropts += [("", 1)]
        resp = r.choices([o[0] for o in ropts], [o[1] for o in ropts])[0]
        rused = {"y": ["y"], "y2[Ya]": ["y2"], "p(s, t)": ["s", "t"], "prop(s, 12)": ["s"],
                 "y2": ["y2"], "": []}[resp]
        rhs = " + ".join(it.text for it in items)
        icpt = ""
        if "nointercept" in fam and r.random() < 0.3:
            icpt = r.choice(["0 + ", "-1 + "])
        text = (f"{resp} ~ " if resp else "") + icpt + rhs
        used = set(rused)
        for it in items:
            used |= it.used
        fams = set()
        for it in items:
            fams |= it.fams
        if icpt:
            fams.add("nointercept")
        if resp != "y":
            fams.add({"y2[Ya]": "resp_level", "p(s, t)": "resp_prop", "prop(s, 12)": "resp_prop",
                      "y2": "resp_cat", "": "resp_none"}[resp])
        common_cats = set()
        for it in items:
            common_cats |= it.cats
        groups = [it.group for it in items if it.group]
        return {
            "text": text,
            "used": sorted(used),
            "resp_cols": rused,
            "fams": sorted(fams),
            "common_cats": sorted(common_cats),
            "groups": groups,
        }

    # ------------------------------------------------------------- new frames
    def rows_frame(self, train_spec, fm, na_action):
        """Any multiset of retained training rows."""
        r = self.rng
        n = F.n_rows(train_spec)
        retained = F.complete_rows(train_spec, fm["used"]) if na_action == "drop" else list(range(n))
        if na_action != "drop":
            # 'pass' keeps incomplete rows; identity is asked on complete rows only
            retained = F.complete_rows(train_spec, fm["used"])
        if not retained:
            return None
        style = r.choice(["single", "reversed", "repeat", "onelevel", "multiset", "multiset", "all"])
        if style == "single":
            idx = [r.choice(retained)]
        elif style == "reversed":
            idx = list(reversed(retained))
        elif style == "repeat":
            i = r.choice(retained)
            idx = [i] * r.randint(2, 4) + [r.choice(retained)]
        elif style == "onelevel":
            cat_cols = [c for c in fm["used"] if c in ("f", "g", "h", "c", "o", "k")]
            if cat_cols:
                cc = r.choice(cat_cols)
                vals = F.col(train_spec, cc)[2]
                lvl = vals[r.choice(retained)]
                idx = [i for i in retained if vals[i] == lvl]
                idx = r.sample(idx, r.randint(1, len(idx)))
            else:
                idx = [r.choice(retained)]
        elif style == "all":
            idx = list(retained)
        else:
            idx = [r.choice(retained) for _ in range(r.randint(1, min(30, 2 * len(retained))))]
        return idx

    def shape_new_frame(self, spec, fm, drop_resp=None):
        """Optionally drop unused columns / the response column, shuffle columns, new index."""
        r = self.rng
        keep = [c[0] for c in spec["cols"]]
        needed = set(fm["used"])
        if drop_resp is None:
            drop_resp = r.random() < 0.5
        if drop_resp:
            needed -= set(fm["resp_cols"])
            keep = [c for c in keep if c not in fm["resp_cols"] or c in needed]
        if r.random() < 0.5:
            keep = [c for c in keep if c in needed or r.random() < 0.5]
        cols = [c for c in spec["cols"] if c[0] in keep]
        cols = [[c[0], c[1], list(c[2]), c[3]] for c in cols]
        for c in cols:
            # the same values written into a Categorical whose (unordered) categories are listed in another
            # order -- what rebuilding the column from its values does
            if c[1] == "cat" and not c[3]["ordered"] and r.random() < 0.4:
                cats = list(c[3]["categories"])
                r.shuffle(cats)
                c[3] = {"categories": cats, "ordered": False}
        r.shuffle(cols)
        n = F.n_rows(spec)
        return {"cols": cols, "index": self.make_index(n)}

    def fresh_frame(self, train_spec, fm, n=None):
        """New rows with the training level sets and a shifted numeric distribution."""
        r = self.rng
        retained = F.complete_rows(train_spec, fm["used"]) or list(range(F.n_rows(train_spec)))
        n = n or r.choice([1, 2, 3, 5, 8, 13, 20])
        cols = []
        shift = r.choice([-20, -1, 0.5, 5, 30])
        scale = r.choice([0.3, 1, 4])
        for name, kind, values, extra in train_spec["cols"]:
            pool = [values[i] for i in retained if values[i] is not None]
            if not pool:
                pool = [v for v in values if v is not None] or [0]
            if kind == "float" and name not in ("dz", "k"):
                vals = [round(r.choice(pool) * scale + shift + r.gauss(0, 1), 3) for _ in range(n)]
            elif name == "t":
                vals = [r.randint(1, 12) for _ in range(n)]
            elif name == "s":
                vals = [0 for _ in range(n)]
            else:
                vals = [r.choice(pool) for _ in range(n)]
            cols.append([name, kind, vals, extra])
        # keep s <= t
        tcol = [c for c in cols if c[0] == "t"][0]
        scol = [c for c in cols if c[0] == "s"][0]
        scol[2] = [r.randint(0, t) for t in tcol[2]]
        return {"cols": cols, "index": list(range(n))}

    def pollute(self, spec, fm, part):
        """Replace chosen cells of chosen categorical variables by unseen labels.

        Returns (polluted_spec, {var: [row positions]}) or None."""
        r = self.rng
        n = F.n_rows(spec)
        cand = []
        if part == "common":
            cand = list(fm["common_cats"])
        else:
            for g in fm["groups"]:
                cand += list(g["effect_cats"]) + list(g["factor"])
        cand = sorted(set(c for c in cand if F.col(spec, c) is not None))
        if not cand:
            return None
        # sometimes pollute a variable that the evaluated part does not use at all
        others = sorted(set(fm["common_cats"]) | set(v for g in fm["groups"] for v in g["factor"]))
        chosen = r.sample(cand, r.randint(1, min(3, len(cand))))
        if r.random() < 0.15:
            extra = [c for c in others if c not in chosen and F.col(spec, c) is not None]
            if extra:
                chosen.append(r.choice(extra))
        polluted = {"cols": [[c[0], c[1], list(c[2]), c[3]] for c in spec["cols"]],
                    "index": list(spec["index"])}
        where = {}
        for v in chosen:
            k = n if r.random() < 0.12 else r.randint(1, max(1, n // 2))  # sometimes EVERY row is unseen
            rows = sorted(r.sample(range(n), min(n, k)))
            c = F.col(polluted, v)
            labels = UNSEEN_MORE[v][: r.choice([1, 1, 2, 3])]
            r.shuffle(labels)
            if c[1] in ("str", "int") and r.random() < 0.15:
                # the new subject / category is written in another TYPE than the known ones (text next to integer
                # codes, a number next to strings): the column becomes a mixed object column
                labels = ["Kother"] if c[1] == "int" else [777]
                c[1] = "obj"
            used_labels = []
            for j, i in enumerate(rows):
                lab = labels[j % len(labels)]
                c[2][i] = lab
                if lab not in used_labels:
                    used_labels.append(lab)
            if c[1] == "cat":
                # a categorical column must list the label among its categories to hold it
                cats = list(c[3]["categories"])
                for lab in used_labels:
                    cats.insert(r.randrange(len(cats) + 1), lab)
                c[3] = {"categories": cats, "ordered": c[3]["ordered"]}
            where[v] = rows
        return polluted, where

    def broken_frame(self, spec, fm):
        r = self.rng
        kind = r.choice(["missing", "dtype", "marker"])
        used = [c for c in fm["used"] if c not in fm["resp_cols"] and F.col(spec, c) is not None]
        if not used:
            return None
        new = {"cols": [[c[0], c[1], list(c[2]), c[3]] for c in spec["cols"]],
               "index": list(spec["index"])}
        v = r.choice(sorted(used))
        if kind == "missing":
            new["cols"] = [c for c in new["cols"] if c[0] != v]
        elif kind == "dtype":
            c = F.col(new, v)
            if c[1] in ("float", "int"):
                c[1], c[2], c[3] = "str", ["bad" for _ in c[2]], None
            else:
                c[1], c[2], c[3] = "float", [1.5 for _ in c[2]], None
        else:
            nums = [c for c in sorted(used) if c in NUM_COLS]
            if not nums:
                new["cols"] = [c for c in new["cols"] if c[0] != v]
            else:
                F.col(new, nums[0])[2][0] = 777.0
        return new, kind

    # -------------------------------------------------------------------- ops
    def fault(self, cfg, kind):
        r = self.rng
        if not cfg["with_faults"] or r.random() >= cfg["p_inject"]:
            return None
        hi = 5000 if kind == "build" else 260
        # position as a fraction: resolved by the executor against the op's real
        # line-event count observed in a dry count (see executor) -- explicit 'at'
        return {"kind": "inject", "frac": round(r.random(), 4),
                "flavour": r.choice(["base", "exc"]), "hi": hi, "mode": r.choice(["line", "line", "call"])}

    def scenario(self):
        r = self.rng
        cfg = self.swarm()
        clients = []
        for i in range(cfg["n_clients"]):
            clients.append({
                "c0": 0.5 + i + r.choice([0.0, 0.25]),  # distinct per client: uf and tools.f differ between callers
                "depth": r.choice([0, 0, 1]),
                "extra": r.choice([None, {"ec": 2.0 + i}, {"ec": 2.0 + i}, {}]),
            })
        trains = []
        for v in range(cfg["n_train"]):
            fid = self.new_frame_id("T")
            self.frames[fid] = self.train_frame(cfg, v)
            trains.append(fid)
        designs = []  # dict(id, fm, train, na_action, client)
        results = []  # dict(id, root, part, parent, depth)
        used_new = []  # ids of new frames already evaluated (for refill)
        ops = []
        mode = "error"
        n_ops = cfg["n_ops"]
        w = dict(cfg["w"])
        last_fault_step = -1

        def add(op):
            op["n"] = len(ops)
            ops.append(op)
            return op

        def do_build():
            client = r.randrange(cfg["n_clients"])
            self._has_ec = bool(clients[client]["extra"] and "ec" in clients[client]["extra"])
            same_text = [x for x in designs if "extra" not in x["fm"]["fams"] or self._has_ec]
            if same_text and len(trains) > 1 and r.random() < 0.3:
                # the same formula text again, by (maybe) another caller on (maybe) other data
                fm = r.choice(same_text)["fm"]
            else:
                fm = self.formula(cfg)
            d = {
                "id": f"d{len(designs)}",
                "fm": fm,
                "train": r.choice(trains),
                "na_action": "drop" if r.random() < 0.8 else "pass",
                "client": client,
            }
            designs.append(d)
            add({"op": "build", "id": d["id"], "client": d["client"], "formula": fm["text"],
                 "frame": d["train"], "na_action": d["na_action"], "fm": fm,
                 "fault": self.fault(cfg, "build")})
            return d

        def do_eval(target=None, canary=False, kind=None):
            nonlocal last_fault_step
            if target is None:
                if results and r.random() < w["chain"] / (w["chain"] + w["eval"] + 1e-9):
                    res = r.choice(results)
                    target, root, part, depth = res["id"], res["root"], res["part"], res["depth"] + 1
                    if depth > 4:
                        return
                else:
                    d = r.choice(designs)
                    target, root, part, depth = d["id"], d["id"], None, 0
            else:
                d = [x for x in designs if x["id"] == target][0]
                root, part, depth = d["id"], None, 0
            d = [x for x in designs if x["id"] == root][0]
            fm = d["fm"]
            if part is None:
                has_group = bool(fm["groups"])
                part = "group" if (has_group and r.random() < (0.6 if self.prop in ("C10", "C17") else 0.4)) else "common"
            train_spec = self.frames[d["train"]]
            kinds = cfg["kinds"]
            op = {"op": "eval", "target": target, "root": root, "part": part, "depth": depth}
            # prediction loops: evaluate a frame object that was used (and maybe refilled) before
            prev = [o for o in ops if o["op"] == "eval" and o["root"] == root and o["part"] == part]
            if kind is None and prev and r.random() < cfg["p_reuse"]:
                src = r.choice(prev)
                for key in ("frame", "kind", "idx", "tpos", "twin", "polluted", "broken"):
                    if key in src:
                        op[key] = src[key]
                rid = f"r{self._oid}"
                self._oid += 1
                op["id"] = rid
                op["reuse"] = True
                op["fault"] = None if canary else self.fault(cfg, "eval")
                add(op)
                results.append({"id": rid, "root": root, "part": part, "parent": target, "depth": depth})
                if len(results) > 8:
                    old = results.pop(0)
                    add({"op": "drop", "target": old["id"]})
                return
            if kind is None:
                kind = r.choices(list(kinds), [kinds[k] for k in kinds])[0]
            if kind == "rows":
                idx = self.rows_frame(train_spec, fm, d["na_action"])
                if idx is None:
                    return
                rows = F.take_rows(train_spec, idx)
                tpos = None
                if r.random() < 0.3:
                    # training rows mixed with fresh rows (other means, ranges outside the training range,
                    # seen levels only): the training-row positions must still reproduce the training matrix
                    fresh = self.fresh_frame(train_spec, fm, n=r.choice([1, 2, 5, 9]))
                    nf, nr = F.n_rows(fresh), len(idx)
                    order = ["f"] * nf + ["t"] * nr
                    r.shuffle(order)
                    fi, ti = iter(range(nf)), iter(range(nr))
                    cols = []
                    for (name, kind_, vals_f, extra), (_, _, vals_t, _) in zip(fresh["cols"], rows["cols"]):
                        fi, ti = iter(range(nf)), iter(range(nr))
                        cols.append([name, kind_, [vals_f[next(fi)] if o == "f" else vals_t[next(ti)] for o in order],
                                     extra])
                    rows = {"cols": cols, "index": list(range(nf + nr))}
                    tpos = [i for i, o in enumerate(order) if o == "t"]
                spec = self.shape_new_frame(rows, fm)
                # a coincidence real prediction code produces all the time: another batch of the SAME length with
                # the SAME index labels (reset_index / freshly built frames) but other rows
                prev = [o for o in ops if o["op"] == "eval" and o.get("kind") == "rows" and o["root"] == root
                        and o["part"] == part and "tpos" not in o and o["frame"] in self.frames]
                if tpos is None and prev and r.random() < 0.25:
                    p = r.choice(prev)
                    pool = F.complete_rows(train_spec, fm["used"])
                    if pool:
                        idx = [r.choice(pool) for _ in p["idx"]]
                        spec = self.shape_new_frame(F.take_rows(train_spec, idx), fm)
                        spec["index"] = list(self.frames[p["frame"]]["index"])
                fid = self.new_frame_id("N")
                self.frames[fid] = spec
                op.update({"frame": fid, "kind": "rows", "idx": idx})
                if tpos is not None:
                    op["tpos"] = tpos
            elif kind == "fresh":
                spec = self.shape_new_frame(self.fresh_frame(train_spec, fm), fm)
                fid = self.new_frame_id("N")
                self.frames[fid] = spec
                op.update({"frame": fid, "kind": "fresh"})
            elif kind == "unseen":
                clean = self.shape_new_frame(self.fresh_frame(train_spec, fm, n=r.choice([1, 2, 4, 6, 9, 14])), fm)
                got = self.pollute(clean, fm, part)
                if got is None:
                    return
                polluted, where = got
                fid, tid = self.new_frame_id("N"), self.new_frame_id("N")
                self.frames[fid] = polluted
                self.frames[tid] = clean
                op.update({"frame": fid, "kind": "unseen", "twin": tid, "polluted": where})
            else:
                got = self.broken_frame(self.shape_new_frame(self.fresh_frame(train_spec, fm), fm, drop_resp=False), fm)
                if got is None:
                    return
                spec, bk = got
                fid = self.new_frame_id("N")
                self.frames[fid] = spec
                op.update({"frame": fid, "kind": "broken", "broken": bk})
            rid = f"r{self._oid}"
            self._oid += 1
            op["id"] = rid
            op["fault"] = None if canary else self.fault(cfg, "eval")
            if op["fault"]:
                last_fault_step = len(ops)
            add(op)
            results.append({"id": rid, "root": root, "part": part, "parent": target, "depth": depth})
            used_new.append(op["frame"])
            if len(results) > 8:
                old = results.pop(0)
                add({"op": "drop", "target": old["id"]})

        current = {}  # frame id -> content after the refills generated so far (self.frames keeps the initial one)

        def do_refill(fid, shrink=False):
            spec = current.get(fid, self.frames[fid])
            n_old = F.n_rows(spec)
            if shrink and n_old > 1:
                # the caller deletes rows of that very object in place before asking again
                spec = F.take_rows(spec, list(range(r.randint(1, n_old - 1))))
            # new numbers / permuted levels, same columns
            new = {"cols": [], "index": list(spec["index"])}
            for name, kind, values, extra in spec["cols"]:
                if kind == "float" and name not in ("dz", "k"):
                    vals = [round(v * 1.5 + 3, 3) if v is not None else None for v in values]
                else:
                    vals = list(values)
                    r.shuffle(vals)
                new["cols"].append([name, kind, vals, extra])
            current[fid] = new
            add({"op": "refill", "frame": fid, "spec": new})

        def emit_eval(d, part, fid, kind, **meta):
            rid = f"r{self._oid}"
            self._oid += 1
            op = {"op": "eval", "id": rid, "target": d["id"], "root": d["id"], "part": part, "depth": 0,
                  "frame": fid, "kind": kind, "reuse": True, "fault": None}
            op.update(meta)
            add(op)
            results.append({"id": rid, "root": d["id"], "part": part, "parent": d["id"], "depth": 0})
            if len(results) > 8:
                add({"op": "drop", "target": results.pop(0)["id"]})

        def do_loop():
            """A prediction loop: the caller evaluates ONE DataFrame object, refills it in place with the next
            batch and evaluates it again, nothing else in between; then another design that was trained on the
            same frame evaluates that very object too."""
            d = r.choice(designs)
            fm = d["fm"]
            part = "group" if fm["groups"] and r.random() < 0.4 else "common"
            spec = self.fresh_frame(self.frames[d["train"]], fm, n=r.choice([1, 3, 6, 10]))
            spec = {"cols": spec["cols"], "index": self.make_index(F.n_rows(spec))}  # every column kept
            fid = self.new_frame_id("N")
            self.frames[fid] = spec
            emit_eval(d, part, fid, "fresh")
            for _ in range(r.choice([1, 1, 2])):
                do_refill(fid, shrink=r.random() < 0.35)
                emit_eval(d, part, fid, "fresh")
            others = [x for x in designs if x["train"] == d["train"] and x["id"] != d["id"]]
            if others and r.random() < 0.6:
                o = r.choice(others)
                opart = part if (part == "common" or o["fm"]["groups"]) else "common"
                emit_eval(o, opart, fid, "fresh")
                emit_eval(d, part, fid, "fresh")
            used_new.append(fid)

        def do_set_config():
            nonlocal mode
            style = r.choice(["attr", "item"])
            if r.random() < 0.25:
                bad = r.choice([
                    (KEY, "Error"), (KEY, "warn"), (KEY, None), (KEY, 0), (KEY, "silent "),
                    ("EVAL_UNSEEN_CATEGORY", "error"), ("eval_unseen_categories", "silent"),
                    ("foo", 1), (KEY, ["error"]), (KEY, "ignore"),
                ])
                add({"op": "set_config", "style": style, "key": bad[0], "value": bad[1], "valid": False})
            else:
                mode = r.choice(MODES)
                add({"op": "set_config", "style": style, "key": KEY, "value": mode, "valid": True})

        registered = []
        do_build()
        while len(ops) < n_ops:
            kinds_w = {
                "build": w["build"] if len(designs) < 4 else 0,
                "eval": w["eval"] + w["chain"],
                "set_config": w["set_config"],
                "refill": w["refill"] if used_new else 0,
                "loop": w.get("loop", 0),
                "register": w.get("register", 0) if not registered else 0,
                "scribble": w["scribble"] if results else 0,
                "drop": w["drop"] if results else 0,
                "rebuild": w["rebuild"],
                "inspect": w["inspect"],
                "describe": w.get("describe", 0),
            }
            k = r.choices(list(kinds_w), [kinds_w[x] for x in kinds_w])[0]
            if k == "build":
                do_build()
            elif k == "eval":
                do_eval()
            elif k == "set_config":
                do_set_config()
            elif k == "refill":
                do_refill(r.choice(used_new))
            elif k == "loop":
                do_loop()
            elif k == "register":
                # the host program registers a stateful transform under a name the callers use for their own function
                registered.append("uf")
                add({"op": "register", "name": "uf"})
            elif k == "scribble":
                add({"op": "scribble", "target": r.choice(results)["id"], "value": r.choice([-7.0, 1e6, 0.0])})
            elif k == "drop":
                res = results.pop(r.randrange(len(results)))
                add({"op": "drop", "target": res["id"]})
            elif k == "describe":
                add({"op": "describe", "formula": r.choice(designs)["fm"]["text"] if r.random() < 0.5
                     else self.formula(cfg)["text"]})
            elif k == "rebuild":
                d = r.choice(designs)
                nd = dict(d)
                nd["id"] = f"d{len(designs)}"
                designs.append(nd)
                add({"op": "rebuild", "id": nd["id"], "of": d["id"]})
            else:
                pool = [d["id"] for d in designs] + [x["id"] for x in results]
                add({"op": "inspect", "target": r.choice(pool)})
        # epilogue: fault-free canaries on every design (damage cannot hide)
        for d in designs:
            if d["id"].startswith("d"):
                do_eval(target=d["id"], canary=True, kind="rows")
                if r.random() < 0.5:
                    do_eval(target=d["id"], canary=True, kind="fresh")
        for op in ops:
            op.setdefault("fault", None)
        if self.force.get("interleave"):
            ops = self.fold_interleavings(ops)
        return {
            "run_seed": self.run_seed,
            "property": self.prop,
            "tier": self.tier,
            "cfg": cfg,
            "clients": clients,
            "frames": self.frames,
            "ops": ops,
        }


def _fold(self, ops):
    """Interleavings: an operation B that follows an un-faulted build / evaluation A whose formula calls the
    client function ``uf`` is moved INSIDE A (``A["nested"] = B``): the executor issues B from within ``uf``, i.e.
    in the middle of A, the way user code called by a formula (or another thread of the host program) would.
    B never depends on A's result; both keep their own oracles."""
    r = random.Random(mix(self.run_seed, "interleave"))
    text = {}
    for o in ops:
        if o["op"] == "build":
            text[o["id"]] = o["formula"]
        elif o["op"] == "rebuild":
            text[o["id"]] = text.get(o["of"], "")
    out = []
    i = 0
    while i < len(ops):
        a = ops[i]
        b = ops[i + 1] if i + 1 < len(ops) else None
        ok = (b is not None and a["op"] in ("build", "eval") and b["op"] in ("build", "eval")
              and not a.get("fault") and not b.get("fault")
              and any(s in (a["formula"] if a["op"] == "build" else text.get(a.get("root"), ""))
                      for s in ("uf(", "ut("))
              and not (b["op"] == "eval" and (b["target"] == a.get("id") or b.get("root") == a.get("id"))))
        if ok and r.random() < 0.6:
            a = dict(a)
            a["nested"] = b
            out.append(a)
            i += 2
        elif (a["op"] == "build" and not a.get("fault") and any(s in a["formula"] for s in ("uf(", "ut("))
              and r.random() < 0.45):
            # the user code called by the formula builds THE SAME model on other data (a bootstrap / cross-validation
            # helper does exactly this) while the model is being built: a twin build nested into its host
            others = sorted(f for f in self.frames if f.startswith("T") and f != a["frame"])
            twin = {k: v for k, v in a.items() if k not in ("n", "nested")}
            twin["id"] = f"{a['id']}x"
            if others and r.random() < 0.8:
                twin["frame"] = r.choice(others)
            a = dict(a)
            a["nested"] = twin
            out.append(a)
            i += 1
        else:
            out.append(a)
            i += 1
    for n, o in enumerate(out):
        o["n"] = n
    return out


Gen.fold_interleavings = _fold


def generate(run_seed, prop, tier="quick", disabled=(), force=None):
    return Gen(run_seed, prop, tier, disabled, force).scenario()
