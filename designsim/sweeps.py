"""Crash-point sweeps and the micro-pool enumeration (C07).

sweep scenario  = a generated fault-free history in which chosen ``eval`` ops
are followed by a ``sweep_eval`` (every line-level crash point of that
evaluation, each followed by the S invariants and an un-faulted canary) and one
``build`` is followed by a ``sweep_build`` (a stride sample of its crash points).

micro-pool      = for a seed-chosen pool of 2 formulas x 2 training frames x 3
new frames, ALL op sequences up to a length bound over a 9-symbol alphabet,
each run as its own scenario with oracles A and S.
"""
import copy
import itertools
import random

from . import frames as F
from .gen import Gen, KEY, mix


def sweep_scenario(run_seed, tier):
    r = random.Random(mix(run_seed, "sweep"))
    # sweeps cost (crash points) x (live objects re-checked after each point): keep frames and histories moderate
    g = Gen(run_seed, "C07", tier, force={"cfg": {"with_faults": False, "rows": r.choice([(4, 8), (8, 25), (26, 60)]),
                                                  "n_ops": r.randint(5, 18)}})
    sc = g.scenario()
    ops = []
    evals = [i for i, op in enumerate(sc["ops"]) if op["op"] == "eval"]
    builds = [i for i, op in enumerate(sc["ops"]) if op["op"] == "build"]
    n_ev = min(len(evals), 6) if tier == "thorough" else min(len(evals), 2)
    pick_e = set(r.sample(evals, n_ev)) if evals else set()
    pick_b = set(r.sample(builds, 1)) if builds else set()
    for i, op in enumerate(sc["ops"]):
        ops.append(op)
        if i in pick_e:
            ops.append({"op": "sweep_eval", "target": op["target"], "root": op["root"], "part": op["part"],
                        "frame": op["frame"], "stride": 1, "alternate": tier != "thorough",
                        "max_points": 700 if tier == "thorough" else 260,
                        "mode": r.choice(["line", "call"]), "cold": op["target"] == op["root"] and r.random() < 0.5,
                        "fault": None})
        if i in pick_b:
            ops.append({"op": "sweep_build", "client": op["client"], "formula": op["formula"],
                        "frame": op["frame"], "na_action": op["na_action"], "fm": op["fm"],
                        "stride": r.choice([5, 7, 11, 13]), "offset": r.randrange(13),
                        "max_points": 400 if tier == "thorough" else 120,
                        "mode": r.choice(["line", "call"]), "fault": None})
    # targeted: the FIRST evaluation of an unseen-level frame under a lenient mode, swept cold (lazily
    # initialised state is built exactly there), on one or two designs
    built = [op for op in sc["ops"] if op["op"] == "build"]
    for b in r.sample(built, min(len(built), 2 if tier == "thorough" else 1)):
        fm = b["fm"]
        train = sc["frames"][b["frame"]]
        part = "group" if fm["groups"] and r.random() < 0.5 else "common"
        clean = g.shape_new_frame(g.fresh_frame(train, fm, n=r.choice([2, 4, 6])), fm)
        got = g.pollute(clean, fm, part)
        if got is None:
            continue
        polluted, where = got
        fid = g.new_frame_id("N")
        sc["frames"][fid] = polluted
        ops.append({"op": "set_config", "style": r.choice(["attr", "item"]), "key": KEY,
                    "value": r.choice(["warning", "silent"]), "valid": True, "fault": None})
        ops.append({"op": "sweep_eval", "target": b["id"], "root": b["id"], "part": part, "frame": fid, "stride": 1,
                    "max_points": 700 if tier == "thorough" else 260,
                    "mode": r.choice(["line", "call"]), "cold": True, "fault": None})
    for j, op in enumerate(ops):
        op["n"] = j
    sc["ops"] = ops
    sc["sweep"] = True
    return sc


def coldproc_scenario(run_seed, tier):
    """One scenario = one cold-process sweep (first build, optionally followed by the first evaluation of an
    unseen-level frame under a lenient mode) over a stride sample of crash points."""
    g = Gen(run_seed, "C07", tier, force={"cfg": {"with_faults": False, "nan_train": False},
                                          "families_add": ["dotted", "catstr", "group", "center", "poly"]})
    r = random.Random(mix(run_seed, "coldproc"))
    cfg = g.swarm()
    clients = [{"c0": 0.5, "depth": r.choice([0, 1]), "extra": r.choice([None, {"ec": 2.0}])}]
    g._has_ec = bool(clients[0]["extra"])
    tid = g.new_frame_id("T")
    g.frames[tid] = g.train_frame(cfg, 0)
    fm = g.formula(cfg)
    op = {"op": "sweep_coldproc", "client": 0, "formula": fm["text"], "frame": tid, "na_action": "drop", "fm": fm,
          "mode": r.choice(["line", "call"]), "stride": r.choice([2, 3, 5, 7]), "offset": r.randrange(7),
          "max_points": 400 if tier == "thorough" else 170, "abort": "build", "fault": None, "n": 0}
    if r.random() < 0.6:
        part = "group" if fm["groups"] and r.random() < 0.5 else "common"
        clean = g.shape_new_frame(g.fresh_frame(g.frames[tid], fm, n=r.choice([2, 4, 6])), fm)
        got = g.pollute(clean, fm, part)
        if got is not None:
            fid = g.new_frame_id("N")
            g.frames[fid] = got[0]
            op.update({"eval_frame": fid, "part": part, "mode_value": r.choice(["warning", "silent"])})
    return {"run_seed": run_seed, "property": "C07", "tier": tier, "cfg": {"coldproc": True}, "clients": clients,
            "frames": g.frames, "ops": [op], "sweep": True}


# --------------------------------------------------------------------------- micro-pool
def micropool(pool_seed, max_len):
    """Yields scenarios: all sequences of length <= max_len over the alphabet,
    after a fixed prefix [build d1] and before a fixed canary suffix."""
    g = Gen(pool_seed, "C07", "quick")
    r = g.rng
    cfg = g.swarm()
    fams = set(cfg["families"]) | {"group", "catstr", "center", "scale", "poly", "bs", "group_slope"}
    cfg["families"] = sorted(fams)
    cfg["max_items"] = 3
    cfg["rows"] = (8, 25)
    cfg["nan_train"] = False
    clients = [{"c0": 1.5, "depth": 0, "extra": None}, {"c0": 0.5, "depth": 1, "extra": {"ec": 2.0}}]
    t0, t1 = "T1", "T2"
    g.frames[t0] = g.train_frame(cfg, 0)
    g.frames[t1] = g.train_frame(cfg, 1)
    g._fid = 2
    # formula 1 must have a group part and a stateful transform so that every symbol means something
    for _ in range(200):
        fm1 = g.formula(cfg)
        if fm1["groups"] and any(x in fm1["fams"] for x in ("center", "scale", "poly", "bs", "ut")) \
                and any("g" in gr["factor"] for gr in fm1["groups"]):
            break
    fm2 = fm1 if r.random() < 0.5 else g.formula(cfg)
    spec0 = g.frames[t0]
    idx = g.rows_frame(spec0, fm1, "drop") or [0]
    fa = "N3"
    g.frames[fa] = g.shape_new_frame(F.take_rows(spec0, idx), fm1)
    fb = "N4"
    g.frames[fb] = g.shape_new_frame(g.fresh_frame(spec0, fm1, n=6), fm1)
    clean = g.shape_new_frame(g.fresh_frame(spec0, fm1, n=6), fm1)
    fu = "N5"
    polluted = copy.deepcopy(clean)
    gcol = F.col(polluted, "g")
    rows_u = [1, 4]
    if gcol is not None:
        for i in rows_u:
            gcol[2][i] = "Gzz"
    g.frames[fu] = polluted
    g._fid = 5
    b1 = {"op": "build", "id": "d1", "client": 0, "formula": fm1["text"], "frame": t0, "na_action": "drop",
          "fm": fm1, "fault": None}
    b2 = {"op": "build", "id": "d2", "client": 1, "formula": fm2["text"], "frame": t1, "na_action": "drop",
          "fm": fm2, "fault": None}

    def ev(rid, target, part, fid, kind, extra=None):
        op = {"op": "eval", "id": rid, "target": target, "root": "d1", "part": part, "frame": fid, "kind": kind,
              "depth": 0 if target == "d1" else 1, "fault": None}
        op.update(extra or {})
        return op

    alphabet = {
        "B1": lambda n: dict(b1, op="rebuild", id=f"d1_{n}", of="d1"),
        "B2": lambda n: dict(b2, id=f"d2_{n}"),
        "Ca": lambda n: ev(f"r{n}", "d1", "common", fa, "rows", {"idx": idx}),
        "Cb": lambda n: ev(f"r{n}", "d1", "common", fb, "fresh"),
        "Gu": lambda n: ev(f"r{n}", "d1", "group", fu, "fresh"),
        "Se": lambda n: {"op": "set_config", "style": "item", "key": KEY, "value": "error", "valid": True},
        "Sw": lambda n: {"op": "set_config", "style": "attr", "key": KEY, "value": "warning", "valid": True},
        "Ss": lambda n: {"op": "set_config", "style": "item", "key": KEY, "value": "silent", "valid": True},
        "Ch": lambda n: ("chain", n),
    }
    symbols = sorted(alphabet)
    base = {"property": "C07", "tier": "quick", "cfg": {"micropool": True}, "clients": clients,
            "frames": g.frames, "run_seed": pool_seed}
    for length in range(0, max_len + 1):
        for seq in itertools.product(symbols, repeat=length):
            ops = [copy.deepcopy(b1)]
            last_group_result = None
            for n, s in enumerate(seq):
                made = alphabet[s](n)
                if isinstance(made, tuple):
                    if last_group_result is None:
                        made = ev(f"r{n}", "d1", "group", fb, "fresh")
                    else:
                        made = ev(f"r{n}", last_group_result, "group", fb, "fresh")
                made = copy.deepcopy(made)
                if made["op"] == "eval" and made["part"] == "group":
                    last_group_result = made["id"]
                ops.append(made)
            ops.append(ev("rc1", "d1", "common", fa, "rows", {"idx": idx}))
            ops.append(ev("rc2", "d1", "group", fb, "fresh"))
            for j, op in enumerate(ops):
                op["n"] = j
                op.setdefault("fault", None)
            sc = dict(base)
            sc["ops"] = ops
            sc["sequence"] = "".join(seq)
            yield sc
