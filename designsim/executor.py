"""The simulated world: executes an explicit scenario (clients, frames, op list
with faults) against the real formulae code and evaluates the oracles while the
run proceeds.  Also hosts ``run_reference`` (what a pristine grandchild does).

Oracles (DESIGN.md section 4):
  A  fresh-process differential        (C07)
  S  snapshot stability                (C07)
  B  training-row identity             (C06)
  C  unseen-level policy model         (C10)
  G  config reference model            (C10)
  D  container invariants              (C17)
H (hash-seed digest) is evaluated by the parent over the digests returned here.
"""
import gc
import hashlib
import re
import traceback
import warnings

import numpy as np

from . import frames as F
from . import prelude
from .inject import Injector, SimAbortBase, SimAbortExc
from .obs import arrays_equal, compare_obs, digest  # noqa: F401

import formulae  # noqa: E402  (after prelude fixed sys.path)
from formulae.transforms import TRANSFORMS
from formulae.categorical import ENCODINGS

KEY = "EVAL_UNSEEN_CATEGORIES"
MODES = ("error", "warning", "silent")
ORACLES_OF = {"C06": {"B"}, "C07": {"A", "S"}, "C10": {"C", "G"}, "C17": {"D"}}
PROP_OF = {"A": "C07", "S": "C07", "H": "C07", "B": "C06", "C": "C10", "G": "C10", "D": "C17"}


class Violation(Exception):
    def __init__(self, oracle, kind, key, detail, extra=None):
        super().__init__(f"{oracle}/{kind}/{key}: {detail}")
        self.oracle = oracle
        self.kind = kind
        self.key = key
        self.detail = detail
        self.extra = extra or {}


# --------------------------------------------------------------------------- observables
def _safe(fn):
    try:
        return fn()
    except Exception as e:  # noqa: BLE001
        return f"ERR:{type(e).__name__}"


def _arr(a):
    a = np.asarray(a)
    return np.array(a, copy=True)


def _slices(d):
    return [(str(k), int(s.start), int(s.stop)) for k, s in d.items()]


def observe_response(r):
    if r is None:
        return None
    return {
        "M": _arr(r.design_matrix),
        "kind": r.kind,
        "name": r.name,
        "levels": _safe(lambda: None if r.levels is None else [str(x) for x in r.levels]),
    }


def observe_common(c):
    if c is None:
        return None
    return {
        "M": _arr(c.design_matrix),
        "slices": _slices(c.slices),
        "terms": [str(t) for t in c.terms],
        "labels": [_safe(lambda t=t: [str(x) for x in t.labels]) for t in c.terms.values()],
        "kinds": [str(t.kind) for t in c.terms.values()],
        "levels": [_safe(lambda t=t: None if t.levels is None else [str(x) for x in t.levels])
                   for t in c.terms.values()],
    }


def observe_group(g):
    if g is None:
        return None
    return {
        "M": _arr(g.design_matrix),
        "slices": _slices(g.slices),
        "terms": [str(t) for t in g.terms],
        "labels": [_safe(lambda t=t: [str(x) for x in t.labels]) for t in g.terms.values()],
        "kinds": [str(t.kind) for t in g.terms.values()],
        "groups": [_safe(lambda t=t: [str(x) for x in t.groups]) for t in g.terms.values()],
        "factors": [str(t.factor.name) for t in g.terms.values()],
        "fwnl": [str(x) for x in g.factors_with_new_levels],
    }


def observe_part(obj, part):
    return {"common": observe_common, "group": observe_group, "response": observe_response}[part](obj)


def observe_design(dm):
    return {
        "response": observe_response(dm.response),
        "common": observe_common(dm.common),
        "group": observe_group(dm.group),
    }


def raise_site(exc):
    """file:function of the innermost traceback frame inside the formulae package."""
    site = None
    for fs in traceback.extract_tb(exc.__traceback__):
        if fs.filename.startswith(prelude.FORMULAE_DIR):
            site = f"{fs.filename[len(prelude.FORMULAE_DIR) + 1:]}:{fs.name}"
    return site or "outside-formulae"


def formulae_user_warnings(wl):
    n = 0
    for w in wl:
        if issubclass(w.category, UserWarning) and str(w.filename).startswith(prelude.FORMULAE_DIR):
            n += 1
    return n


def ns_extra_for(scenario):
    """Namespace constants shared by all clients of a scenario (levels lists for
    ``levels=``), derived from the first training frame."""
    out = {}
    tids = sorted([k for k in scenario["frames"] if k.startswith("T")], key=lambda s: int(s[1:]))
    if tids:
        spec = scenario["frames"][tids[0]]
        for name, var in (("lvk", "k"), ("lvf", "f")):
            c = F.col(spec, var)
            if c is not None:
                vals = sorted(set(v for v in c[2] if v is not None))
                out[name] = vals
        for var in ("x", "z", "w"):
            c = F.col(spec, var)
            if c is not None:
                vals = sorted(v for v in c[2] if v is not None)
                if len(vals) >= 4:
                    # three interior knots inside the range of the first training frame
                    out[f"kn_{var}"] = [vals[len(vals) // 4], vals[len(vals) // 2], vals[(3 * len(vals)) // 4]]
                    out[f"lb_{var}"] = vals[len(vals) // 4]
                    out[f"ub_{var}"] = vals[(3 * len(vals)) // 4]
    return out


# --------------------------------------------------------------------------- reference side
class record_warnings:
    """Records the warnings that get through the process-wide filters WITHOUT saving and restoring those
    filters (``warnings.catch_warnings`` would undo, and thereby hide, a filter that formulae leaves behind).
    The process-wide base is "always", set once per process by ``base_warning_filters``."""

    def __enter__(self):
        self.old = warnings.showwarning
        self.log = []

        def show(message, category, filename, lineno, file=None, line=None):
            self.log.append(warnings.WarningMessage(message, category, filename, lineno, file, line))

        warnings.showwarning = show
        return self.log

    def __exit__(self, *exc):
        warnings.showwarning = self.old
        return False


def base_warning_filters():
    warnings.resetwarnings()
    warnings.simplefilter("always")


def _do_build(client, op, frame):
    with record_warnings() as wl:
        dm = client["fn"](op["formula"], frame, op["na_action"], client["extra"])
    return dm, wl


def _do_eval(obj, frame):
    with record_warnings() as wl:
        res = obj.evaluate_new_data(frame)
    return res, wl


def observe_description(formula):
    m = formulae.model_description(formula)
    return {
        "response": None if m.response is None else str(m.response.term.name),
        "common": [str(t.name) for t in m.common_terms],
        "group": [str(t.name) for t in m.group_terms],
        "var_names": sorted(str(v) for v in m.var_names),
    }


def run_reference(req):
    """Executed in a pristine grandchild: set mode, build, optionally evaluate.  Transforms the host program
    registered in the simulated history are registered here at the same place relative to the build."""
    base_warning_filters()
    formulae.config[KEY] = req["mode"]
    for name in req.get("regs_before", []):
        prelude.register_clash(name)
    if "describe" in req:
        for name in req.get("regs_before", []):
            pass  # already registered above
        try:
            return {"describe": ("ok", observe_description(req["describe"]))}
        except Exception as e:  # noqa: BLE001
            return {"describe": ("raise", type(e).__name__)}
    clients = [prelude.make_client(c, i, req["ns_extra"]) for i, c in enumerate(req["clients"])]
    b = req["build"]
    frame = F.build_frame(b["frame_spec"])
    out = {}
    try:
        dm, wl = _do_build(clients[b["client"]], b, frame)
    except Exception as e:  # noqa: BLE001
        out["build"] = ("raise", type(e).__name__)
        return out
    out["build"] = ("ok", observe_design(dm), sorted(w.category.__name__ for w in wl))
    for name in req.get("regs_after", []):
        prelude.register_clash(name)
    ev = req.get("eval")
    if ev is not None:
        part = getattr(dm, ev["part"])
        if part is None:
            out["eval"] = ("nopart",)
            return out
        new = F.build_frame(ev["frame_spec"])
        try:
            res, wl = _do_eval(part, new)
        except Exception as e:  # noqa: BLE001
            out["eval"] = ("raise", type(e).__name__)
            return out
        out["eval"] = ("ok", observe_part(res, ev["part"]), sorted(w.category.__name__ for w in wl))
    return out


# --------------------------------------------------------------------------- the world
IDENT = r"(?<![A-Za-z0-9_.'\"]){v}(?![A-Za-z0-9_('\"])"


def mentions(text, var):
    return re.search(IDENT.format(v=re.escape(var)), text) is not None


class World:
    def __init__(self, scenario, oracles, ref=None, injector=None, suppress=None):
        self.sc = scenario
        self.oracles = set(oracles)
        self.ref = ref
        self.inj = injector
        self.ns_extra = ns_extra_for(scenario)
        self.clients = [prelude.make_client(c, i, self.ns_extra) for i, c in enumerate(scenario["clients"])]
        self.frame_spec = {k: v for k, v in scenario["frames"].items()}  # current content
        self.frame_live = {}
        self.frame_fp = {}
        self.designs = {}  # id -> dict
        self.results = {}  # id -> dict
        self.mode = "error"
        self.events = []
        self.stats = {}
        self.probes = {}
        self.trigram_src = []
        self.states = set()
        self.nhat = {}
        self.ns_fp = None
        self.reg_fp = None
        self.step = -1
        self.count_lines = any((op.get("fault") or {}).get("kind") == "inject" for op in scenario["ops"])
        self.suppress = suppress or (lambda v: False)
        self.suppressed = []
        self.regs = []  # names registered by the host program so far, in order
        self.dump = None  # list of per-step observables when requested
        self.last_obs = None
        self.nesting = 0  # > 0 while an operation interleaved into another one (through the uf seam) is running

    # -- interleaving: an operation issued by user code in the middle of another operation
    def run_op(self, op):
        nested = op.get("nested")
        if not nested:
            return getattr(self, "op_" + op["op"])(op)
        box = {"ev": None, "exc": None}

        def hook():
            self.nesting += 1
            try:
                box["ev"] = getattr(self, "op_" + nested["op"])(nested)
            except BaseException as e:  # noqa: BLE001 -- a Violation / harness error must not travel through formulae
                box["exc"] = e
            finally:
                self.nesting -= 1

        prelude.UF_HOOK[0] = hook
        try:
            ev = getattr(self, "op_" + op["op"])(op)
        finally:
            fired = prelude.UF_HOOK[0] is None
            prelude.UF_HOOK[0] = None
        if box["exc"] is not None:
            raise box["exc"]
        tag = f"{op['op']}<{nested['op']}"
        if fired:
            self.bump(f"fault.fired.interleave.{tag}")
            if nested.get("root") is not None and nested.get("root") == op.get("root"):
                self.probe("interleave_same_design")
        else:
            # uf was not called by this operation (it failed earlier, or the name resolves to something else):
            # the other operation is issued right after it instead, so that the history keeps all its operations
            self.bump("interleave.armed_not_fired")
            box["ev"] = getattr(self, "op_" + nested["op"])(nested)
        nev = box["ev"] or {}
        ev["nested"] = f"{nested['op']}:{nev.get('outcome')}:{'in' if fired else 'after'}"
        ev["sd"] = f"{ev.get('sd', '')}+{ev['nested']}+{nev.get('sd', '')}"
        ev["nd"] = f"{ev.get('nd', '')}+{nev.get('nd', '')}"
        return ev

    # -- bookkeeping helpers
    def bump(self, key, n=1):
        self.stats[key] = self.stats.get(key, 0) + n

    def probe(self, key, n=1):
        self.probes[key] = self.probes.get(key, 0) + n

    def frame(self, fid):
        if fid not in self.frame_live:
            self.frame_live[fid] = F.build_frame(self.frame_spec[fid])
            self.frame_fp[fid] = F.frame_fingerprint(self.frame_live[fid])
        return self.frame_live[fid]

    def namespaces_fp(self):
        out = []
        for c in self.clients:
            out.append(sorted((k, id(v)) for k, v in c["ns"].items()))
            # the STATE of the caller's own objects too (an encoding instance the caller keeps and reuses)
            out.append(sorted((k, repr(sorted(vars(v).items()))) for k, v in c["ns"].items()
                              if k in ("tr0", "sm0")))
            out.append(None if c["extra"] is None else sorted((k, id(v)) for k, v in c["extra"].items()))
        return out

    def registries_fp(self):
        # registries and the process-wide numpy floating-point error state (what a fresh process-state has)
        return [sorted((k, id(v)) for k, v in TRANSFORMS.items()),
                sorted((k, id(v)) for k, v in ENCODINGS.items()),
                sorted(np.geterr().items()),
                # the global random number generators: a library call must not reseed or consume them
                hashlib.sha256(np.random.get_state()[1].tobytes()).hexdigest()[:12],
                hashlib.sha256(repr(__import__("random").getstate()).encode()).hexdigest()[:12]]

    def guard_reflexive(self, obs, what):
        """Before a difference between two observables is reported, make sure the comparison itself is sound for
        this value: an observable must compare equal to a pickled copy of itself.  If it does not, the harness is
        at fault (exit 2), not formulae."""
        import pickle

        d = compare_obs(obs, pickle.loads(pickle.dumps(obs, protocol=4)), what)
        if d:
            raise RuntimeError(f"harness comparison is not reflexive for {what}: {d}")

    def fail(self, oracle, kind, key, detail, extra=None):
        v = Violation(oracle, kind, key, detail, extra)
        if self.suppress(v):
            self.suppressed.append({"oracle": oracle, "kind": kind, "key": key, "step": self.step})
            return
        raise v

    # -- guarded execution with optional injected abort
    def guarded(self, fn, op, kind):
        """Returns (outcome, value, warnings, info)."""
        fault = op.get("fault")
        at = None
        flavour = "base"
        mode = "line"
        if fault and fault.get("kind") == "inject":
            mode = fault.get("mode", "line")
            if "at" not in fault:
                hi = self.nhat.get(f"{kind}.{mode}") or fault.get("hi", 200) * (3 if mode == "call" else 1)
                fault["at"] = 1 + int(fault["frac"] * hi)
            at = fault["at"]
            flavour = fault.get("flavour", "base")
        use_inj = self.inj is not None and (at is not None or self.count_lines) and not self.nesting
        try:
            if use_inj:
                value, wl = self.inj.run(fn, at=at, flavour=flavour, mode=mode, count_both=True)
            else:
                value, wl = fn()
        except (SimAbortBase, SimAbortExc):
            self._after_count(kind, use_inj)
            fired = self.inj.fired
            self.bump(f"fault.fired.inject.{kind}.{mode}.{flavour}")
            self.probe(f"abort_in:{fired[0]}:{fired[1]}")
            return "aborted", None, [], {"fired": list(fired), "at": at}
        except Exception as e:  # noqa: BLE001
            self._after_count(kind, use_inj)
            if at is not None and self.inj.fired is not None:
                # the injected abort was turned into another exception by formulae's handlers
                self.bump(f"fault.fired.inject.{kind}.{mode}.{flavour}")
                return "aborted", None, [], {"fired": list(self.inj.fired), "at": at, "as": type(e).__name__}
            if at is not None:
                self.bump("fault.armed_not_fired")
            return "raise", e, [], {"type": type(e).__name__, "site": raise_site(e)}
        self._after_count(kind, use_inj)
        if at is not None:
            if self.inj.fired is not None:
                self.bump("fault.swallowed")
                return "swallowed", value, wl, {"fired": list(self.inj.fired), "at": at}
            self.bump("fault.armed_not_fired")
        return "ok", value, wl, {}

    def _after_count(self, kind, use_inj):
        if use_inj:
            for mode in ("line", "call"):
                n = self.inj.counts[mode]
                key = f"{kind}.{mode}"
                if self.nhat.get(key) is None or n > self.nhat[key]:
                    self.nhat[key] = n

    # -- reference requests
    def ref_request(self, build_op, eval_part=None, eval_fid=None, n_regs_at_build=None):
        k = len(self.regs) if n_regs_at_build is None else n_regs_at_build
        req = {
            "mode": self.mode,
            "regs_before": self.regs[:k],
            "regs_after": self.regs[k:],
            "clients": self.sc["clients"],
            "ns_extra": self.ns_extra,
            "build": {
                "client": build_op["client"],
                "formula": build_op["formula"],
                "na_action": build_op["na_action"],
                "frame_spec": self.frame_spec[build_op["frame"]],
            },
        }
        if eval_part is not None:
            req["eval"] = {"part": eval_part, "frame_spec": self.frame_spec[eval_fid]}
        return self.ref.ask(req)

    # -- run
    def run(self):
        violation = None
        self.ns_fp = self.namespaces_fp()
        self.reg_fp = self.registries_fp()
        chain_s = hashlib.sha256()
        chain_n = hashlib.sha256()
        # a caller does not keep every frame alive for ever: a new frame is released after its last use, so that
        # its memory (and its id()) can be taken by a later frame -- what an identity-keyed cache must survive
        last_use = {}
        for j, o in enumerate(self.sc["ops"]):
            for oo in (o, o.get("nested") or {}):
                for key in ("frame", "twin", "eval_frame"):
                    if oo.get(key):
                        last_use[oo[key]] = j
        for i, op in enumerate(self.sc["ops"]):
            self.step = i
            self.last_obs = None
            try:
                ev = self.run_op(op)
                self.after_step(op)
            except Violation as v:
                violation = {
                    "property": PROP_OF[v.oracle], "oracle": v.oracle, "step": i, "kind": v.kind,
                    "key": v.key, "detail": v.detail[:600], "extra": v.extra,
                }
                self.events.append({"n": i, "op": op["op"], "outcome": "VIOLATION"})
                break
            ev["n"] = i
            self.events.append(ev)
            if self.dump is not None:
                self.dump.append(self.last_obs)
            chain_s.update(f"{i}|{ev['op']}|{ev['outcome']}|{ev.get('sd', '')}".encode())
            chain_n.update(f"{i}|{ev.get('nd', '')}".encode())
            self.trigram_src.append(f"{op['op']}:{ev['outcome']}")
            self.record_state()
            for fid in [f for f, j in last_use.items() if j == i and f.startswith("N")]:
                if self.frame_live.pop(fid, None) is not None:
                    self.frame_fp.pop(fid, None)
                    self.bump("frames.released")
        return {
            "violation": violation,
            "digest": chain_s.hexdigest()[:24],
            "ndigest": chain_n.hexdigest()[:24],
            "events": self.events,
            "stats": self.stats,
            "probes": self.probes,
            "trigrams": sorted(set(zip(self.trigram_src, self.trigram_src[1:], self.trigram_src[2:]))),
            "states": sorted(self.states),
            "suppressed": self.suppressed,
            "n_ops": len(self.events),
            "dump": self.dump,
        }

    def record_state(self):
        per = []
        for did in sorted(self.designs):
            d = self.designs[did]
            per.append((tuple(d["op"]["fm"]["fams"])[:6] if "fm" in d["op"] else (), min(d["n_evals"], 3),
                        d["failed_eval"], d["widened_desc"]))
        depth = max([r["depth"] for r in self.results.values()] or [0])
        st = repr((self.mode, sorted(per), depth, len(self.results)))
        self.states.add(hashlib.sha256(st.encode()).hexdigest()[:12])

    # -- ops ---------------------------------------------------------------------------
    def op_build(self, op, rebuild_of=None):
        client = self.clients[op["client"]]
        frame = self.frame(op["frame"])
        outcome, value, wl, info = self.guarded(lambda: _do_build(client, op, frame), op, "build")
        self.bump(f"op.build.{outcome}")
        ev = {"op": op["op"], "outcome": outcome}
        if outcome == "raise":
            ev["sd"] = info["type"]
        if outcome in ("ok", "swallowed"):
            dm = value
            obs = observe_design(dm)
            self.last_obs = obs
            used = op["fm"]["used"] if "fm" in op else []
            n = F.n_rows(self.frame_spec[op["frame"]])
            if op["na_action"] == "drop":
                retained = F.complete_rows(self.frame_spec[op["frame"]], used)
            else:
                retained = list(range(n))
            self.designs[op["id"]] = {
                "dm": dm, "op": op, "obs0": obs, "fp": digest(obs), "retained": retained, "n_regs": len(self.regs),
                "n_evals": 0, "failed_eval": False, "widened_desc": False, "mode_at_build": self.mode,
            }
            ev["sd"] = digest(obs, numeric=False)
            ev["nd"] = digest(obs)
        if "A" in self.oracles and outcome in ("ok", "raise"):
            self.bump("check.A.build")
            ref = self.ref_request(op)["build"]
            if outcome == "raise":
                if ref[0] != "raise" or ref[1] != info["type"]:
                    self.fail("A", "build-outcome", f"{info['type']}@{info['site']}",
                              f"build of {op['formula']!r} raised {info['type']} in the long-lived world but "
                              f"gave {ref[0]} {ref[1] if ref[0] == 'raise' else ''} in a fresh process")
            else:
                if ref[0] != "ok":
                    self.fail("A", "build-outcome", f"ok-vs-{ref[1]}",
                              f"build of {op['formula']!r} succeeded but raises {ref[1]} in a fresh process")
                else:
                    d = compare_obs(obs, ref[1], "design", self.stats)
                    if d:
                        self.guard_reflexive(obs, "design")
                        self.fail("A", "build-value", "design", f"build of {op['formula']!r} differs from a "
                                  f"fresh process: {d}")
        if rebuild_of is not None and "S" in self.oracles and outcome == "ok":
            orig = self.designs.get(rebuild_of)
            # (a transform registered by the host program in between legitimately changes what a NEW build resolves)
            if orig is not None and orig.get("n_regs", 0) == len(self.regs):
                self.bump("check.S.rebuild")
                d = compare_obs(orig["obs0"], self.designs[op["id"]]["obs0"], "design", self.stats)
                if d:
                    self.fail("S", "rebuild", "design", f"rebuilding {op['formula']!r} on the same frame gave a "
                              f"different design: {d}")
        return ev

    def op_rebuild(self, op):
        src = None
        flat = [oo for o in self.sc["ops"] for oo in (o, o.get("nested")) if oo]
        for o in flat:
            if o.get("id") == op["of"] and o["op"] in ("build", "rebuild"):
                src = o
        while src is not None and src["op"] == "rebuild":
            nxt = None
            for o in flat:
                if o.get("id") == src["of"] and o["op"] in ("build", "rebuild"):
                    nxt = o
            src = nxt
        if src is None:
            return {"op": "rebuild", "outcome": "skipped"}
        new = dict(src)
        new["id"] = op["id"]
        new["op"] = "rebuild"
        new["fault"] = None
        new.pop("nested", None)
        ev = self.op_build(new, rebuild_of=op["of"] if op["of"] in self.designs else None)
        ev["op"] = "rebuild"
        return ev

    def resolve_target(self, op):
        t = op["target"]
        if t in self.designs:
            d = self.designs[t]
            return getattr(d["dm"], op["part"]), d, None
        if t in self.results:
            r = self.results[t]
            return r["obj"], self.designs.get(r["root"]), r
        return None, None, None

    def op_eval(self, op):
        obj, root, parent = self.resolve_target(op)
        if obj is None or root is None or op["frame"] not in self.frame_spec:
            return {"op": "eval", "outcome": "skipped"}
        part = op["part"]
        frame = self.frame(op["frame"])
        outcome, value, wl, info = self.guarded(lambda: _do_eval(obj, frame), op, "eval")
        self.bump(f"op.eval.{outcome}")
        self.bump(f"op.eval.kind.{op.get('kind', '?')}")
        root["n_evals"] += 1
        ev = {"op": "eval", "outcome": outcome}
        if parent is not None:
            self.probe("chain_eval")
            if parent.get("widened"):
                self.probe("chain_on_widened")
        if root["mode_at_build"] != self.mode:
            self.probe("eval_under_other_mode_than_build")
        if F.n_rows(self.frame_spec[op["frame"]]) == 1:
            self.probe("single_row_frame")
        if op.get("refilled"):
            self.probe("eval_after_refill")
        if op.get("reuse"):
            self.probe("eval_on_reused_frame_object")
        obs = None
        if outcome == "raise":
            root["failed_eval"] = True
            ev["sd"] = info["type"]
            if op.get("kind") == "broken":
                self.bump("fault.fired.natural.broken")
            elif op.get("kind") == "unseen":
                self.bump("fault.fired.natural.unseen_error")
        elif outcome == "aborted":
            root["failed_eval"] = True
        if outcome in ("ok", "swallowed"):
            obs = observe_part(value, part)
            self.last_obs = {"obs": obs, "warnings": sorted(w.category.__name__ for w in wl)}
            widened = False
            if part == "group":
                base = root["obs0"]["group"]["M"].shape[1]
                widened = obs["M"].shape[1] != base
                if widened:
                    root["widened_desc"] = True
                    self.probe("widened_result")
            self.results[op["id"]] = {
                "obj": value, "root": op["root"], "part": part, "depth": op.get("depth", 0),
                "obs0": obs, "fp": digest(obs), "frame": op["frame"], "widened": widened,
                "n_rows": F.n_rows(self.frame_spec[op["frame"]]),
            }
            ev["sd"] = digest(obs, numeric=False)
            ev["nd"] = digest(obs)
        wcats = sorted(w.category.__name__ for w in wl)
        # ---- oracle A
        if "A" in self.oracles and outcome in ("ok", "raise"):
            self.bump("check.A.eval")
            refo = self.ref_request(root["op"], part, op["frame"], n_regs_at_build=root.get("n_regs", 0))
            ref = refo.get("eval") or ("nobuild",) + tuple(refo["build"][1:2])
            if outcome == "raise":
                if ref[0] != "raise" or ref[1] != info["type"]:
                    self.fail("A", "eval-outcome", f"{info['type']}@{info['site']}",
                              f"evaluate_new_data raised {info['type']} ({info['site']}) in the long-lived world "
                              f"but a fresh process gives {ref[0]} {ref[1] if len(ref) > 1 and ref[0] == 'raise' else ''}")
            elif ref[0] != "ok":
                self.fail("A", "eval-outcome", f"ok-vs-{ref[0]}",
                          f"evaluate_new_data succeeded but a fresh process gives {ref[:2]}")
            else:
                d = compare_obs(obs, ref[1], part, self.stats)
                if d:
                    self.guard_reflexive(obs, part)
                    self.fail("A", "eval-value", d.split(":")[0], f"evaluate_new_data({op['frame']}) on "
                              f"{op['target']} differs from the same evaluation on a fresh design in a fresh "
                              f"process: {d}")
                if wcats != ref[2]:
                    self.fail("A", "eval-warnings", "warnings", f"warnings {wcats} vs fresh process {ref[2]}")
        # ---- oracle B
        if "B" in self.oracles and op.get("kind") == "rows" and outcome in ("ok", "raise"):
            self.check_B(op, root, part, outcome, obs, info)
        # ---- oracle C
        if "C" in self.oracles and op.get("kind") == "unseen" and outcome in ("ok", "raise"):
            from .policy import check_C

            check_C(self, op, obj, root, part, outcome, obs, info, wl)
        return ev

    def check_B(self, op, root, part, outcome, obs, info):
        self.bump("check.B")
        train = root["obs0"][part]
        pos_of = {r: i for i, r in enumerate(root["retained"])}
        if any(i not in pos_of for i in op["idx"]):
            return
        if train["M"].shape[0] != len(root["retained"]):
            return  # row bookkeeping differs: C09/C17's business, identity cannot be stated
        if outcome == "raise":
            self.fail("B", "raise", f"{info['type']}@{info['site']}",
                      f"evaluating {part} of {root['op']['formula']!r} on {len(op['idx'])} training rows raised "
                      f"{info['type']} at {info['site']}", {"formula": root["op"]["formula"]})
            return
        pos = [pos_of[i] for i in op["idx"]]
        expect = train["M"][pos] if train["M"].ndim == 2 else train["M"][pos]
        got = obs["M"]
        if op.get("tpos") is not None:
            # frame mixing fresh rows and training rows: identity is asked on the training-row positions
            self.probe("rows_mixed_with_fresh")
            if got.shape[0] != F.n_rows(self.frame_spec[op["frame"]]) or got.shape[1:] != expect.shape[1:]:
                self.fail("B", "shape", "shape", f"{part} of {root['op']['formula']!r} on a frame of "
                          f"{F.n_rows(self.frame_spec[op['frame']])} rows has shape {got.shape}, training columns "
                          f"{expect.shape[1:]}", {"formula": root["op"]["formula"]})
                return
            got = got[op["tpos"]]
        lacking = len(set(op["idx"])) < len(root["retained"])
        if lacking:
            self.probe("rows_frame_is_strict_subset")
        if got.shape != expect.shape:
            self.fail("B", "shape", "shape", f"{part} of {root['op']['formula']!r} on training rows has shape "
                      f"{got.shape}, the training matrix rows have {expect.shape}",
                      {"formula": root["op"]["formula"]})
            return
        if not np.allclose(got.astype(float), expect.astype(float), rtol=1e-10, atol=1e-10, equal_nan=True):
            bad = np.argwhere(~np.isclose(got.astype(float), expect.astype(float), rtol=1e-10, atol=1e-10,
                                          equal_nan=True))
            r, c = (int(bad[0][0]), int(bad[0][1])) if bad.ndim == 2 and bad.shape[1] == 2 else (int(bad[0][0]), 0)
            col_term = next((t for t, a, b in obs["slices"] if a <= c < b), "?")
            self.fail("B", "value", f"term:{col_term}",
                      f"{part} of {root['op']['formula']!r}: row {r} (training row {op['idx'][r]}) column {c} "
                      f"(term {col_term}) is {got[r, c] if got.ndim == 2 else got[r]!r}, training matrix has "
                      f"{expect[r, c] if expect.ndim == 2 else expect[r]!r}", {"formula": root["op"]["formula"]})
            return
        if obs["slices"] != train["slices"]:
            self.fail("B", "slices", "slices", f"slices {obs['slices']} differ from training {train['slices']}")
        if obs["labels"] != train["labels"]:
            self.fail("B", "labels", "labels", f"labels differ from training: {obs['labels']} vs {train['labels']}")

    def op_set_config(self, op):
        cfg = formulae.config
        key, value = op["key"], op["value"]
        if isinstance(value, list):
            value = list(value)
        try:
            if op["style"] == "attr":
                setattr(cfg, key, value)
            else:
                cfg[key] = value
            raised = None
        except Exception as e:  # noqa: BLE001
            raised = type(e).__name__
        documented = key == KEY and isinstance(value, str) and value in MODES
        if documented:
            self.mode = value
        self.bump("op.set_config." + ("valid" if documented else "invalid"))
        if not documented:
            self.bump("fault.fired.config.invalid")
        else:
            self.bump("fault.fired.config.flip")
        if "G" in self.oracles:
            self.bump("check.G")
            if documented and raised:
                self.fail("G", "rejects-documented", f"{key}={value}", f"config {op['style']} {key}={value!r} raised {raised}")
            if not documented and not raised:
                self.fail("G", "accepts-undocumented", f"{key}={value!r}",
                          f"config accepted undocumented {op['style']} assignment {key}={value!r}")
            if key != KEY:
                # an undocumented key must not be readable back afterwards, whatever the assignment said
                stored = _safe(lambda: cfg[key])
                if not (isinstance(stored, str) and stored.startswith("ERR:")):
                    self.fail("G", "undocumented-key-stored", f"{key}",
                              f"after the {op['style']}-style assignment {key}={value!r} the configuration holds "
                              f"{key}={stored!r}")
        return {"op": "set_config", "outcome": "raise:" + raised if raised else "ok", "sd": repr((key, value))}

    def op_register(self, op):
        """The host program registers a stateful transform (public API).  Designs built before keep what they
        resolved at build time; the registry snapshot of oracle S is updated: the caller changed it, not formulae."""
        prelude.register_clash(op["name"])
        self.regs.append(op["name"])
        self.reg_fp = self.registries_fp()
        self.bump("op.register")
        self.bump("fault.fired.caller.register")
        return {"op": "register", "outcome": "ok", "sd": op["name"]}

    def op_refill(self, op):
        fid = op["frame"]
        if fid not in self.frame_live:
            return {"op": "refill", "outcome": "skipped"}
        F.refill_in_place(self.frame_live[fid], op["spec"])
        self.frame_spec[fid] = op["spec"]
        self.frame_fp[fid] = F.frame_fingerprint(self.frame_live[fid])
        for o in [oo for t in self.sc["ops"][self.step + 1:] for oo in (t, t.get("nested")) if oo]:
            if o.get("frame") == fid and o["op"] == "eval":
                o["refilled"] = True
                # identity / policy metadata no longer describe the refilled content
                if o.get("kind") in ("rows", "unseen"):
                    o["kind"] = "fresh"
        self.bump("op.refill")
        self.bump("fault.fired.caller.refill")
        return {"op": "refill", "outcome": "ok", "sd": F.spec_digest(op["spec"])}

    def op_scribble(self, op):
        r = self.results.get(op["target"])
        if r is None:
            return {"op": "scribble", "outcome": "skipped"}
        M = r["obj"].design_matrix
        try:
            M[...] = op["value"]
        except Exception:  # noqa: BLE001 - read-only or int array: not formulae's problem
            return {"op": "scribble", "outcome": "refused"}
        r["obs0"] = observe_part(r["obj"], r["part"])
        r["fp"] = digest(r["obs0"])
        self.bump("op.scribble")
        self.bump("fault.fired.caller.scribble")
        return {"op": "scribble", "outcome": "ok"}

    def op_drop(self, op):
        t = op["target"]
        if t in self.results:
            del self.results[t]
        elif t in self.designs:
            del self.designs[t]
        else:
            return {"op": "drop", "outcome": "skipped"}
        gc.collect()
        self.bump("op.drop")
        return {"op": "drop", "outcome": "ok"}

    def op_describe(self, op):
        try:
            obs = ("ok", observe_description(op["formula"]))
        except Exception as e:  # noqa: BLE001
            obs = ("raise", type(e).__name__)
        self.bump("op.describe")
        self.last_obs = list(obs)
        if "A" in self.oracles:
            self.bump("check.A.describe")
            ref = self.ref.ask({"mode": self.mode, "describe": op["formula"], "regs_before": list(self.regs)})["describe"]
            d = compare_obs(list(obs), list(ref), "description")
            if d:
                self.fail("A", "describe-value", "model_description",
                          f"model_description({op['formula']!r}) differs from a fresh process: {d}")
        return {"op": "describe", "outcome": obs[0], "sd": digest(list(obs))}

    def op_inspect(self, op):
        t = op["target"]
        objs = []
        if t in self.designs:
            dm = self.designs[t]["dm"]
            objs = [dm, dm.response, dm.common, dm.group]
        elif t in self.results:
            objs = [self.results[t]["obj"]]
        else:
            return {"op": "inspect", "outcome": "skipped"}
        out = []
        for o in objs:
            if o is None:
                continue
            out.append(_safe(lambda o=o: len(str(o)) > 0 and len(repr(o)) > 0))
            if hasattr(o, "as_dataframe"):
                out.append(_safe(lambda o=o: o.as_dataframe().shape))
            if hasattr(o, "design_matrix"):
                out.append(_safe(lambda o=o: np.asarray(o).shape))
        self.bump("op.inspect")
        return {"op": "inspect", "outcome": "ok", "sd": repr(out)}

    # -- sweeps (crash-point enumeration) ------------------------------------------------
    def op_sweep_eval(self, op):
        obj, root, parent = self.resolve_target(op)
        if obj is None or root is None:
            return {"op": "sweep_eval", "outcome": "skipped"}
        if op.get("cold") and parent is None:
            return self.sweep_eval_cold(op, root)
        frame = self.frame(op["frame"])
        part = op["part"]
        fn = lambda: _do_eval(obj, frame)  # noqa: E731
        mode = op.get("mode", "line")
        try:
            base, wl = self.inj.run(fn, at=None, mode=mode)
        except Exception as e:  # noqa: BLE001
            return {"op": "sweep_eval", "outcome": "baseline-raise", "sd": type(e).__name__}
        N = self.inj.count
        base_obs = observe_part(base, part)
        ks = op.get("ks") or _points(N, op)
        flavours = op.get("flavours") or ["base", "exc"]
        points = 0
        for k in ks:
            for fl in flavours:
                if op.get("alternate") and (k + (fl == "exc")) % 2:
                    continue
                points += 1
                try:
                    self.inj.run(fn, at=k, flavour=fl, mode=mode)
                    fired = self.inj.fired is not None
                except (SimAbortBase, SimAbortExc):
                    fired = True
                except Exception:  # noqa: BLE001
                    fired = self.inj.fired is not None
                if fired:
                    self.bump(f"fault.fired.inject.eval.{mode}.{fl}")
                    self.probe(f"abort_in:{self.inj.fired[0]}:{self.inj.fired[1]}")
                self.sweep_ctx = {"k": k, "flavour": fl}
                self.after_step(op, sweep=True)
                # canary: the same evaluation, un-faulted, must give the baseline again
                try:
                    again, _ = _do_eval(obj, frame)
                    d = compare_obs(base_obs, observe_part(again, part), part, self.stats)
                except Exception as e:  # noqa: BLE001
                    d = f"canary evaluation raised {type(e).__name__}"
                if d:
                    self.fail("A", "post-abort-canary", "canary",
                              f"after an abort at {mode} event {k} ({fl}, {self.inj.fired}) of "
                              f"evaluate_new_data, the same evaluation no longer gives the result it gave before: {d}",
                              {"sweep": {"k": k, "flavour": fl}})
        self.bump("sweep.eval.ops")
        self.bump("sweep.eval.points", points)
        self.bump(f"sweep.eval.points.{mode}", points)
        self.sweep_ctx = None
        if "A" in self.oracles:
            refo = self.ref_request(root["op"], part, op["frame"], n_regs_at_build=root.get("n_regs", 0))
            ref = refo.get("eval")
            if ref and ref[0] == "ok":
                again, _ = _do_eval(obj, frame)
                d = compare_obs(observe_part(again, part), ref[1], part, self.stats)
                if d:
                    self.fail("A", "post-sweep-reference", "canary", f"after {points} aborted evaluations the "
                              f"evaluation differs from a fresh process: {d}")
        return {"op": "sweep_eval", "outcome": "ok", "sd": f"N={N}", "points": points}

    def sweep_eval_cold(self, op, root):
        """Every crash point of the FIRST evaluation on a design: for each point a fresh design is built
        (same arguments as the root design), the evaluation is aborted there, and the same evaluation is
        repeated un-faulted on that design; it must give what a never-interrupted design gives.  This is
        what exposes lazily initialised state (a cache filled on first use) left half-built."""
        bop = root["op"]
        client = self.clients[bop["client"]]
        train = self.frame(bop["frame"])
        frame = self.frame(op["frame"])
        part = op["part"]
        mode = op.get("mode", "line")

        def fresh():
            dm, _ = _do_build(client, bop, train)
            return getattr(dm, part)

        try:
            cold = fresh()
            base, wl = self.inj.run(lambda: _do_eval(cold, frame), at=None, mode=mode)
        except Exception as e:  # noqa: BLE001
            return {"op": "sweep_eval", "outcome": "baseline-raise", "sd": type(e).__name__}
        N = self.inj.count
        base_obs = observe_part(base, part)
        ks = op.get("ks") or _points(N, op)
        flavours = op.get("flavours") or ["base", "exc"]
        points = 0
        for k in ks:
            fl = flavours[k % len(flavours)] if not op.get("ks") else flavours[0]
            points += 1
            try:
                obj = fresh()
            except Exception:  # noqa: BLE001
                break
            try:
                self.inj.run(lambda: _do_eval(obj, frame), at=k, flavour=fl, mode=mode)
                fired = self.inj.fired is not None
            except (SimAbortBase, SimAbortExc):
                fired = True
            except Exception:  # noqa: BLE001
                fired = self.inj.fired is not None
            if fired:
                self.bump(f"fault.fired.inject.eval.{mode}.{fl}")
                self.probe(f"abort_in:{self.inj.fired[0]}:{self.inj.fired[1]}")
            self.sweep_ctx = {"k": k, "flavour": fl}
            self.after_step(op, sweep=True)
            try:
                again, _ = _do_eval(obj, frame)
                d = compare_obs(base_obs, observe_part(again, part), part, self.stats)
            except Exception as e:  # noqa: BLE001
                d = f"canary evaluation raised {type(e).__name__}"
            if d:
                self.fail("A", "post-abort-canary", "canary-cold",
                          f"the first evaluate_new_data on a freshly built design was aborted at {mode} event {k} "
                          f"({fl}, {self.inj.fired}); the same evaluation on that design afterwards differs from "
                          f"what a never-interrupted design gives: {d}", {"sweep": {"k": k, "flavour": fl}})
        self.sweep_ctx = None
        self.bump("sweep.eval.cold.ops")
        self.bump("sweep.eval.ops")
        self.bump("sweep.eval.points", points)
        self.bump(f"sweep.eval.points.{mode}", points)
        self.bump("sweep.eval.cold.points", points)
        return {"op": "sweep_eval", "outcome": "ok", "sd": f"cold N={N}", "points": points}

    def op_sweep_build(self, op):
        client = self.clients[op["client"]]
        frame = self.frame(op["frame"])
        fn = lambda: _do_build(client, op, frame)  # noqa: E731
        mode = op.get("mode", "line")
        try:
            base, wl = self.inj.run(fn, at=None, mode=mode)
        except Exception as e:  # noqa: BLE001
            return {"op": "sweep_build", "outcome": "baseline-raise", "sd": type(e).__name__}
        N = self.inj.count
        base_obs = observe_design(base)
        del base
        ks = op.get("ks") or _points(N, op)
        flavours = op.get("flavours") or ["base", "exc"]
        points = 0
        for j, k in enumerate(ks):
            fl = flavours[j % len(flavours)]
            points += 1
            try:
                self.inj.run(fn, at=k, flavour=fl, mode=mode)
                fired = self.inj.fired is not None
            except (SimAbortBase, SimAbortExc):
                fired = True
            except Exception:  # noqa: BLE001
                fired = self.inj.fired is not None
            if fired:
                self.bump(f"fault.fired.inject.build.{mode}.{fl}")
                self.probe(f"abort_in:{self.inj.fired[0]}:{self.inj.fired[1]}")
            self.sweep_ctx = {"k": k, "flavour": fl}
            self.after_step(op, sweep=True)
            if j % op.get("canary_every", 8) == 0 or "ks" in op:
                try:
                    again, _ = _do_build(client, op, frame)
                    d = compare_obs(base_obs, observe_design(again), "design", self.stats)
                except Exception as e:  # noqa: BLE001
                    d = f"canary build raised {type(e).__name__}"
                if d:
                    self.fail("A", "post-abort-canary", "canary-build",
                              f"after a build aborted at {mode} event {k} ({fl}, {self.inj.fired}), building the same "
                              f"design again gives something else: {d}", {"sweep": {"k": k, "flavour": fl}})
        self.sweep_ctx = None
        self.bump("sweep.build.ops")
        self.bump("sweep.build.points", points)
        self.bump(f"sweep.build.points.{mode}", points)
        return {"op": "sweep_build", "outcome": "ok", "sd": f"N={N}", "points": points}

    def op_sweep_coldproc(self, op):
        """Crash points of the FIRST build (and first evaluation) in a process: every point is tried in its
        own child forked from this still pristine process, so process-level lazily initialised state (a
        module-level memo, a registry filled on first use) is cold each time.  In the child: the operation
        is aborted at point k, then repeated un-faulted; the outcome must equal the one of a child in which
        nothing was interrupted.  Must be the first op of its scenario (this process has not yet run any
        formulae function)."""
        import os
        import pickle

        if self.step != 0:
            return {"op": "sweep_coldproc", "outcome": "skipped"}
        client = self.clients[op["client"]]
        train = self.frame(op["frame"])
        ev_frame = self.frame(op["eval_frame"]) if op.get("eval_frame") else None
        part = op.get("part", "common")
        mode = op.get("mode", "line")
        target = op.get("abort", "build")
        if op.get("mode_value"):
            formulae.config[KEY] = op["mode_value"]
            self.mode = op["mode_value"]

        def child(k, flavour):
            r, w = os.pipe()
            pid = os.fork()
            if pid == 0:
                os.close(r)
                out = {}
                try:
                    def work():
                        dm, _ = _do_build(client, op, train)
                        res = None
                        if ev_frame is not None and getattr(dm, part) is not None:
                            res, _ = _do_eval(getattr(dm, part), ev_frame)
                        return dm, res

                    if k is None:
                        try:
                            dm, res = self.inj.run(work, at=None, mode=mode)
                            out["n"] = self.inj.count
                        except Exception as e:  # noqa: BLE001
                            out["baseline_raise"] = type(e).__name__
                            dm = res = None
                    else:
                        try:
                            self.inj.run(work, at=k, flavour=flavour, mode=mode)
                        except BaseException:  # noqa: BLE001 - the injected abort (or what it became)
                            pass
                        out["fired"] = self.inj.fired
                        try:
                            dm, res = work()
                        except Exception as e:  # noqa: BLE001
                            out["canary_raise"] = type(e).__name__
                            dm = res = None
                    if dm is not None:
                        out["obs"] = {"design": observe_design(dm),
                                      "eval": None if res is None else observe_part(res, part)}
                    out["config"] = _safe(lambda: formulae.config[KEY])
                except BaseException as e:  # noqa: BLE001
                    out = {"child_error": f"{type(e).__name__}: {e}"}
                try:
                    data = pickle.dumps(out, protocol=4)
                    os.write(w, len(data).to_bytes(8, "little"))
                    view = memoryview(data)
                    while view:
                        n = os.write(w, view[:65536])
                        view = view[n:]
                finally:
                    os._exit(0)
            os.close(w)
            buf = b""
            while True:
                chunk = os.read(r, 1 << 20)
                if not chunk:
                    break
                buf += chunk
            os.close(r)
            _, status = os.waitpid(pid, 0)
            if len(buf) < 8:
                raise RuntimeError(f"cold-process child died (status {status}) at point {k}")
            return pickle.loads(buf[8:])

        base = child(None, "base")
        if "child_error" in base:
            raise RuntimeError("cold-process baseline: " + base["child_error"])
        if "baseline_raise" in base or "obs" not in base:
            return {"op": "sweep_coldproc", "outcome": "baseline-raise", "sd": base.get("baseline_raise", "?")}
        N = base["n"]
        ks = op.get("ks") or _points(N, op)
        flavours = op.get("flavours") or ["base", "exc"]
        points = 0
        for j, k in enumerate(ks):
            fl = flavours[j % len(flavours)]
            got = child(k, fl)
            points += 1
            if "child_error" in got:
                raise RuntimeError("cold-process child: " + got["child_error"])
            if got.get("fired"):
                self.bump(f"fault.fired.inject.coldproc.{mode}.{fl}")
                self.probe(f"abort_in:{got['fired'][0]}:{got['fired'][1]}")
            d = None
            if "canary_raise" in got:
                d = f"the repeated operation raised {got['canary_raise']}"
            elif got.get("config") != base.get("config"):
                d = f"formulae.config is {got.get('config')!r} afterwards, {base.get('config')!r} without interruption"
            else:
                d = compare_obs(base["obs"], got["obs"], "coldproc", self.stats)
            if d:
                self.fail("A", "post-abort-canary", "canary-coldproc",
                          f"in a fresh process the first design_matrices({op['formula']!r})"
                          f"{' + evaluate_new_data' if ev_frame is not None else ''} was aborted at {mode} event {k} "
                          f"({fl}, {got.get('fired')}); repeating it in that process gives something else than a "
                          f"process that was never interrupted: {d}", {"sweep": {"k": k, "flavour": fl}})
        self.bump("sweep.coldproc.ops")
        self.bump("sweep.coldproc.points", points)
        return {"op": "sweep_coldproc", "outcome": "ok", "sd": f"N={N}", "points": points}

    # -- after every step -----------------------------------------------------------------
    def after_step(self, op, sweep=False):
        extra = {"sweep": dict(self.sweep_ctx)} if sweep and getattr(self, "sweep_ctx", None) else None
        if "S" in self.oracles:
            self.check_S(op, extra)
        if "G" in self.oracles or "S" in self.oracles:
            cur = _safe(lambda: formulae.config[KEY])
            cur_attr = _safe(lambda: getattr(formulae.config, KEY))
            if cur != self.mode or cur_attr != self.mode:
                self.fail("G" if "G" in self.oracles else "S", "config-state", "config",
                          f"formulae.config reads {cur!r} (item style) / {cur_attr!r} (attribute style) after step "
                          f"{self.step} ({op['op']}); the reference model says {self.mode!r}", extra)
        if "D" in self.oracles and not sweep:
            from .containers import check_D

            check_D(self)

    def check_S(self, op, extra=None):
        for did, d in self.designs.items():
            self.bump("check.S.object")
            fp = digest(observe_design(d["dm"]))
            if fp != d["fp"]:
                diff = compare_obs(d["obs0"], observe_design(d["dm"]), did)
                self.fail("S", "design-changed", "design", f"design {did} ({d['op']['formula']!r}) changed "
                          f"after step {self.step} ({op['op']}): {diff}", extra)
        for rid, r in self.results.items():
            self.bump("check.S.object")
            cur = observe_part(r["obj"], r["part"])
            if digest(cur) != r["fp"]:
                diff = compare_obs(r["obs0"], cur, rid)
                self.fail("S", "result-changed", "result", f"earlier result {rid} changed after step "
                          f"{self.step} ({op['op']}): {diff}", extra)
        for fid, df in self.frame_live.items():
            self.bump("check.S.frame")
            if F.frame_fingerprint(df) != self.frame_fp[fid]:
                self.fail("S", "frame-changed", "caller-frame", f"the caller's frame {fid} was altered by step "
                          f"{self.step} ({op['op']})", extra)
        if self.namespaces_fp() != self.ns_fp:
            self.fail("S", "namespace-changed", "caller-namespace",
                      f"a caller namespace changed at step {self.step} ({op['op']})", extra)
        if self.registries_fp() != self.reg_fp:
            self.fail("S", "registry-changed", "registry",
                      f"TRANSFORMS/ENCODINGS, the process-wide numpy error state (np.geterr() = {np.geterr()}) or the "
                      f"state of the global random number generators changed at step {self.step} ({op['op']})", extra)


def _points(n_events, op):
    """Crash points of a sweep: every ``stride``-th event; the stride is widened so that at most
    ``max_points`` points are tried (all of them when there are fewer)."""
    stride = max(1, op.get("stride", 1))
    cap = op.get("max_points")
    if cap and n_events // stride > cap:
        stride = -(-n_events // cap)
    # the points are spread over the WHOLE operation (never a prefix of it); the offset varies per scenario
    return list(range(1 + op.get("offset", 0) % stride, n_events + 1, stride))


def run_scenario(scenario, oracles=None, ref=None, suppress=None, dump=False):
    """Run one scenario from a clean config; returns the result dict."""
    oracles = set(oracles if oracles is not None else ORACLES_OF[scenario["property"]])
    base_warning_filters()
    formulae.config[KEY] = "error"
    needs_inj = any((op.get("fault") or {}).get("kind") == "inject" or op["op"].startswith("sweep")
                    for op in scenario["ops"])
    inj = _INJECTOR if needs_inj else None
    w = World(scenario, oracles, ref=ref, injector=inj, suppress=suppress)
    if dump:
        w.dump = []
    try:
        out = w.run()
    finally:
        formulae.config[KEY] = "error"
    return out


_INJECTOR = Injector(prelude.FORMULAE_DIR)
