"""Writes /verif/regressions/<prop>-<name>.json: explicit minimal scenarios of the
defects repaired by the fix: commits in /repo.  Every check replays the ones of
its property; a failure is reported as a VIOLATION (a fixed entry suppresses
nothing)."""
import json
import os
import sys

sys.path.insert(0, os.path.dirname(os.path.dirname(os.path.abspath(__file__))))
from designsim import frames as F  # noqa: E402
from designsim.gen import Gen, KEY  # noqa: E402

OUT = os.path.join(os.path.dirname(os.path.dirname(os.path.abspath(__file__))), "regressions")


def base_frame():
    g = Gen(12345, "C06", "quick")
    cfg = g.swarm()
    cfg.update({"rows": (14, 14), "nlev": 3, "nan_train": False})
    spec = g.train_frame(cfg, 0)
    spec["cols"].sort(key=lambda c: c[0])
    spec["index"] = list(range(F.n_rows(spec)))
    return spec


def fm(text, used, resp=("y",), common_cats=(), groups=()):
    return {"text": text, "used": sorted(used), "resp_cols": list(resp), "fams": [], "common_cats": list(common_cats),
            "groups": list(groups)}


def build(did, fmd, frame="T1", client=0):
    return {"op": "build", "id": did, "client": client, "formula": fmd["text"], "frame": frame, "na_action": "drop",
            "fm": fmd, "fault": None}


def ev(rid, target, root, part, frame, kind, **kw):
    op = {"op": "eval", "id": rid, "target": target, "root": root, "part": part, "frame": frame, "kind": kind,
          "depth": 0 if target == root else 1, "fault": None}
    op.update(kw)
    return op


def setc(mode):
    return {"op": "set_config", "style": "item", "key": KEY, "value": mode, "valid": True, "fault": None}


def scenario(prop, frames, ops):
    for i, op in enumerate(ops):
        op["n"] = i
    return {"run_seed": 0, "property": prop, "tier": "quick", "cfg": {"regression": True},
            "clients": [{"c0": 1.5, "depth": 0, "extra": None}], "frames": frames, "ops": ops}


def write(prop, name, oracles, sc, what, fixed_by):
    with open(os.path.join(OUT, f"{prop}-{name}.json"), "w") as fh:
        json.dump({"format": "designsim-regression-1", "property": prop, "oracles": oracles, "what": what,
                   "fixed_by": fixed_by, "scenario": sc}, fh, indent=1)


def main():
    os.makedirs(OUT, exist_ok=True)
    T = base_frame()
    n = F.n_rows(T)
    fvals = F.col(T, "f")[2]
    kvals = F.col(T, "k")[2]
    gvals = F.col(T, "g")[2]
    # rows lacking levels
    idx_f = [i for i in range(n) if fvals[i] != "Fa"][:3]
    idx_k = [i for i in range(n) if kvals[i] == kvals[0]][:2]
    rows_f = F.take_rows(T, idx_f)
    rows_k = F.take_rows(T, idx_k)
    rows_2 = F.take_rows(T, [0, 1])
    # unseen group frames
    fresh = F.take_rows(T, [0, 1, 2, 3, 4, 5])
    un1 = json.loads(json.dumps(fresh))
    F.col(un1, "g")[2][1] = "Gzz"
    un2 = json.loads(json.dumps(fresh))
    F.col(un2, "g")[2][3] = "Gzz"
    F.col(un2, "g")[2][4] = "Gzz"
    unk = json.loads(json.dumps(fresh))
    F.col(unk, "k")[2][2] = 97
    frames = {"T1": T, "N2": rows_2, "N3": rows_f, "N4": rows_k, "N5": un1, "N6": fresh, "N7": un2, "N8": unk,
              "N9": F.take_rows(T, [0])}

    # F1 ---------------------------------------------------------------------------------------------
    for name, text, used, cats in [
        ("F1-slash", "y ~ f / x", ["y", "f", "x"], ["f"]),
        ("F1-slash-cat", "y ~ f / g", ["y", "f", "g"], ["f", "g"]),
        ("F1-power", "y ~ 0 + (f + g) ** 2", ["y", "f", "g"], ["f", "g"]),
        ("F1-model-star", "y ~ 0 + (f + g) * c", ["y", "f", "g", "c"], ["f", "g", "c"]),
    ]:
        d = fm(text, used, common_cats=cats)
        sc = scenario("C06", frames, [build("d0", d), ev("r0", "d0", "d0", "common", "N2", "rows", idx=[0, 1])])
        write("C06", name, ["B"], sc, f"{text!r}: evaluate_new_data on training rows returns the training rows",
              "a91ecfe")
        sc = scenario("C17", frames, [build("d0", d), ev("r0", "d0", "d0", "common", "N2", "rows", idx=[0, 1])])
        write("C17", name, ["D"], sc, f"{text!r}: labels/slices/columns agree", "a91ecfe")
    gd = fm("y ~ (0 + f | g + h) + (1 | g)", ["y", "f", "g", "h"],
            groups=[{"effect_cats": ["f"], "factor": ["g"], "factor_text": "g"},
                    {"effect_cats": ["f"], "factor": ["h"], "factor_text": "h"},
                    {"effect_cats": [], "factor": ["g"], "factor_text": "g"}])
    sc = scenario("C17", frames, [build("d0", gd), ev("r0", "d0", "d0", "group", "N2", "rows", idx=[0, 1])])
    write("C17", "F1-pipe", ["D"], sc, "'(0 + f | g + h) + (1 | g)': group labels match columns", "a91ecfe")
    sc = scenario("C06", frames, [build("d0", gd), ev("r0", "d0", "d0", "group", "N2", "rows", idx=[0, 1])])
    write("C06", "F1-pipe", ["B"], sc, "'(0 + f | g + h) + (1 | g)': group matrix on training rows", "a91ecfe")

    # F4 ---------------------------------------------------------------------------------------------
    bsd = fm("y ~ (bs(x, df=4) | g)", ["y", "x", "g"],
             groups=[{"effect_cats": [], "factor": ["g"], "factor_text": "g"}])
    sc = scenario("C17", frames, [build("d0", bsd)])
    write("C17", "F4-print-multicol", ["D"], sc, "printing the group matrix of (bs(x, df=4) | g) succeeds", "b887df5")
    fgd = fm("y ~ (f | g)", ["y", "f", "g"], groups=[{"effect_cats": ["f"], "factor": ["g"], "factor_text": "g"}])
    sc = scenario("C17", frames, [setc("silent"), build("d0", fgd),
                                  ev("r0", "d0", "d0", "group", "N5", "unseen", twin="N6", polluted={"g": [1]})])
    write("C17", "F4-print-widened", ["D"], sc, "printing a widened (f | g) group matrix succeeds", "b887df5")

    # F5 ---------------------------------------------------------------------------------------------
    g1 = fm("y ~ (1 | g)", ["y", "g"], groups=[{"effect_cats": [], "factor": ["g"], "factor_text": "g"}])
    ops = [setc("silent"), build("d0", g1),
           ev("r0", "d0", "d0", "group", "N5", "unseen", twin="N6", polluted={"g": [1]}),
           ev("r1", "r0", "d0", "group", "N7", "unseen", twin="N6", polluted={"g": [3, 4]}),
           ev("r2", "r0", "d0", "group", "N6", "fresh")]
    write("C10", "F5-chain-widened", ["C", "G"], scenario("C10", frames, json.loads(json.dumps(ops))),
          "factors_with_new_levels on a chain through a widened result", "7961ae5")
    write("C07", "F5-chain-widened", ["A", "S"], scenario("C07", frames, json.loads(json.dumps(ops))),
          "chained evaluation depends only on the design and the frame", "7961ae5")

    # F6 ---------------------------------------------------------------------------------------------
    rd = fm("y2[Ya] ~ x", ["y2", "x"], resp=("y2",))
    write("C17", "F6-response-level", ["D"], scenario("C17", frames, [build("d0", rd)]),
          "data-frame view of a 'y[level]' response", "09cb1d1")

    # F2 ---------------------------------------------------------------------------------------------
    for name, text, used, cats, fr, idx in [
        ("F2-levels", "y ~ C(k, levels=lvk)", ["y", "k"], ["k"], "N4", idx_k),
        ("F2-ordered", "y ~ C(o)", ["y", "o"], ["o"], "N9", [0]),
    ]:
        d = fm(text, used, common_cats=cats)
        sc = scenario("C06", frames, [build("d0", d), ev("r0", "d0", "d0", "common", fr, "rows", idx=idx)])
        write("C06", name, ["B"], sc, f"{text!r} evaluates on training rows lacking a level", "8d66866")
    d = fm("y ~ C(k, levels=lvk)", ["y", "k"], common_cats=["k"])
    sc = scenario("C10", frames, [setc("silent"), build("d0", d),
                                  ev("r0", "d0", "d0", "common", "N8", "unseen", twin="N6", polluted={"k": [2]})])
    write("C10", "F2-levels-unseen", ["C", "G"], sc, "unseen level of C(k, levels=) follows the policy", "8d66866")

    # F3 ---------------------------------------------------------------------------------------------
    for name, text in [("F3-binary", "y ~ binary(f, 'Fa')"), ("F3-B-default", "y ~ B(f) + x")]:
        d = fm(text, ["y", "f", "x"])
        sc = scenario("C06", frames, [build("d0", d), ev("r0", "d0", "d0", "common", "N3", "rows", idx=idx_f)])
        write("C06", name, ["B"], sc, f"{text!r} keeps its success level on rows without a success", "a999d59")
    print(sorted(os.listdir(OUT)))


if __name__ == "__main__":
    main()
