"""Sensitivity suite: break each property on purpose in a scratch copy of
formulae, run the property's quick check against the copy, confirm a VIOLATION
with a replay file that reproduces on the mutant and not on the clean tree,
then delete the copy.  Nothing here touches /repo.

    python tools/mutants.py [name ...]        # default: all
"""
import json
import os
import re
import shutil
import subprocess
import sys
import time

HERE = os.path.dirname(os.path.dirname(os.path.abspath(__file__)))
PY = sys.executable

# (name, property, file, old, new, needs)
M = []


def mut(name, prop, file, old, new, needs=""):
    M.append({"name": name, "prop": prop, "file": file, "old": old, "new": new, "needs": needs})


# ------------------------------------------------------------------ C06
mut("c06_center_reestimate", "C06", "transforms.py",
    "        if not self.params_set:\n            self.mean = np.mean(x)\n            self.params_set = True\n        return x - self.mean",
    "        self.mean = np.mean(x)\n        return x - self.mean", "new rows with another mean")
mut("c06_bs_reknot", "C06", "transforms.py",
    "        if not self.params_set:\n            self._initialize(x, df, knots, degree, intercept, lower_bound, upper_bound)",
    "        self._initialize(x, df, knots, degree, intercept, lower_bound, upper_bound)", "new rows with another range")
mut("c06_poly_memo_bypass", "C06", "transforms.py",
    "            if k not in self.alpha:\n", "            if True:\n", "poly on a subset")
mut("c06_categories_from_new_data", "C06", "terms/variable.py",
    "            idxs = pd.Categorical(x, categories=self.levels).codes\n            return self.contrast_matrix.matrix[idxs]",
    "            idxs = pd.Categorical(x).codes\n            return self.contrast_matrix.matrix[idxs]",
    "rows lacking a level")
mut("c06_transform_reinstantiated", "C06", "terms/call_resolver.py",
    "            and callee.__stateful_transform__\n            and self.stateful_transform is None\n",
    "            and callee.__stateful_transform__\n", "any stateful transform")
mut("c06_scale_std_second_use", "C06", "transforms.py",
    "        return (x - self.mean) / self.std",
    "        out = (x - self.mean) / self.std\n        self.std = np.std(x) if len(x) > 1 else self.std\n        return out",
    "two evaluations in a row: the second one uses the std of the first new frame")
# ------------------------------------------------------------------ C07
mut("c07_reentrant_instance_scratch", "C07", "matrices.py",
    "        new_instance.design_matrix = np.column_stack(\n            [t.eval_new_data(data) for t in self.terms.values()]\n        )\n        new_instance.slices = self.slices",
    "        self.pending = data\n        new_instance.design_matrix = np.column_stack(\n            [t.eval_new_data(self.pending) for t in self.terms.values()]\n        )\n        new_instance.slices = self.slices",
    "INTERLEAVING: the same design is evaluated on another frame by user code called from the formula, in the "
    "middle of an evaluation (scratch state kept on the shared matrix object)")
mut("c07_reentrant_class_scratch", "C07", "matrices.py",
    "        new_instance.design_matrix = np.column_stack(\n            [t.eval_new_data(data) for t in self.terms.values()]\n        )\n        new_instance.slices = self.slices",
    "        CommonEffectsMatrix.pending = data\n        new_instance.design_matrix = np.column_stack(\n            [t.eval_new_data(CommonEffectsMatrix.pending) for t in self.terms.values()]\n        )\n        new_instance.slices = self.slices",
    "INTERLEAVING: any design is evaluated by user code called from the formula, in the middle of an evaluation of "
    "another design (process-wide scratch state)")
mut("c07_poly_class_state", "C07", "transforms.py",
    "    __transform_name__ = \"poly\"\n\n    def __init__(self):\n        self.params_set = False\n        self.degree = 1\n        self.raw = False\n        self.alpha = {}\n        self.norms2 = {}",
    "    __transform_name__ = \"poly\"\n    alpha = {}\n    norms2 = {}\n\n    def __init__(self):\n        self.params_set = False\n        self.degree = 1\n        self.raw = False",
    "two designs using poly")
mut("c07_transform_cached_by_name", "C07", "terms/call_resolver.py",
    "            self.stateful_transform = callee()\n",
    "            self.stateful_transform = _CACHE.setdefault(str(self), callee())\n",
    "two designs with the same call text on different data")
mut("c07_levels_grow_on_eval", "C07", "terms/variable.py",
    "        # pandas uses '-1' for unseen levels\n        idxs_original = pd.Categorical(x, categories=self.levels).codes",
    "        self.levels = self.levels + sorted(str(d) for d in difference)\n        idxs_original = pd.Categorical(x, categories=self.levels).codes[:]\n        idxs_original = np.where(idxs_original >= self.contrast_matrix.matrix.shape[0], -1, idxs_original)",
    "an evaluation with an unseen level, then another")
mut("c07_shared_slices_edited", "C07", "matrices.py",
    "        new_instance.slices = self.slices\n        new_instance.evaluated = True",
    "        new_instance.slices = self.slices\n        if data.shape[0] == 1:\n            new_instance.slices[next(iter(self.slices))] = slice(0, 1)\n        new_instance.evaluated = True",
    "single-row evaluation edits the dict shared with the design")
mut("c07_caller_frame_reindexed", "C07", "matrices.py",
    "    extra_namespace = extra_namespace or {}\n",
    "    extra_namespace = extra_namespace or {}\n    if data.isna().any().any():\n        data.reset_index(drop=True, inplace=True)\n",
    "training frame with NaN and a non-default index")
mut("c07_config_not_restored", "C07", "matrices.py",
    "        for term in self.terms.values():\n            term_matrix = term.eval_new_data(data)\n",
    "        from formulae.config import config as _cfg\n        _old = _cfg[\"EVAL_UNSEEN_CATEGORIES\"]\n        for term in self.terms.values():\n            if _old == \"warning\":\n                _cfg[\"EVAL_UNSEEN_CATEGORIES\"] = \"silent\"\n            term_matrix = term.eval_new_data(data)\n            _cfg[\"EVAL_UNSEEN_CATEGORIES\"] = _old\n",
    "an abort inside a group evaluation under 'warning'")
mut("c07_cache_by_frame_id", "C07", "terms/variable.py",
    "        x = data_mask[self.name]\n        if self.kind == \"numeric\":\n            return self.eval_new_data_numeric(x)",
    "        key = (id(data_mask), self.name)\n        if self.kind == \"numeric\":\n            if key not in _MEMO:\n                _MEMO[key] = np.array(data_mask[self.name])\n            return _MEMO[key]\n        x = data_mask[self.name]\n        if self.kind == \"numeric\":\n            return self.eval_new_data_numeric(x)",
    "caller refills the same DataFrame object")
mut("c07_term_order_by_set", "C07", "matrices.py",
    "        self.terms = {term.name: term for term in terms}\n        self.data = None\n        self.env = None\n        self.design_matrix = None",
    "        terms = list(terms)\n        terms = [t for t in terms if t.name == \"Intercept\"] + list({t.name: t for t in set(t for t in terms if t.name != \"Intercept\")}.values()) if len(terms) > 3 else terms\n        self.terms = {term.name: term for term in terms}\n        self.data = None\n        self.env = None\n        self.design_matrix = None",
    "another PYTHONHASHSEED")
mut("c07_namespace_written", "C07", "matrices.py",
    "    env = Environment.capture(env, reference=1)\n",
    "    env = Environment.capture(env, reference=1)\n    if extra_namespace is not None and len(formula) > 40:\n        extra_namespace[\"_last_formula\"] = formula\n",
    "client passing an extra_namespace dict")
mut("c07_result_aliases_training", "C07", "matrices.py",
    "        new_instance.slices = self.slices\n        new_instance.evaluated = True\n        return new_instance",
    "        new_instance.slices = self.slices\n        new_instance.evaluated = True\n        if new_instance.design_matrix.shape == self.design_matrix.shape and np.array_equal(new_instance.design_matrix, self.design_matrix):\n            new_instance.design_matrix = self.design_matrix  # do not keep two copies of the same numbers\n        return new_instance",
    "evaluating all training rows in order returns the training array itself; the caller then writes into it")
mut("c07_global_memo_halfbuilt", "C07", "contrasts.py",
    """    expanded = list(enumerate(tupl))
    expanded_subsets = list(helper(expanded))
    expanded_subsets.sort()
    expanded_subsets.sort(key=len)

    for subset in expanded_subsets:
        yield tuple(obj for (idx, obj) in subset)
""",
    """    n = len(tupl)
    if n not in _SUBSET_INDEXES:
        # the index pattern only depends on the number of components: compute it once per process
        _SUBSET_INDEXES[n] = []
        expanded = list(enumerate(range(n)))
        expanded_subsets = list(helper(expanded))
        expanded_subsets.sort()
        expanded_subsets.sort(key=len)
        for subset in expanded_subsets:
            _SUBSET_INDEXES[n].append(tuple(idx for (idx, obj) in subset))

    for indexes in _SUBSET_INDEXES[n]:
        yield tuple(tupl[i] for i in indexes)
""",
    "an interruption while the process-wide memo is being filled by the first build of the process")
# ------------------------------------------------------------------ C10
mut("c10_zero_rule_missing", "C10", "terms/variable.py",
    "        contribution[idxs_original == -1] = 0\n", "", "unseen level in warning/silent mode")
mut("c10_new_block_first", "C10", "terms/terms.py",
    "            Ji = np.column_stack([Ji, np.zeros((Ji.shape[0], 1), dtype=\"int\")])\n            Ji[all_zeros, -1] = 1",
    "            Ji = np.column_stack([np.zeros((Ji.shape[0], 1), dtype=\"int\"), Ji])\n            Ji[all_zeros, 0] = 1",
    "unseen group")
mut("c10_fwnl_duplicates", "C10", "matrices.py",
    "            if slice_w_original != slice_w_new and term.factor.name not in factors_with_new_levels:",
    "            if slice_w_original != slice_w_new:", "two terms on the same factor")
mut("c10_warn_in_silent", "C10", "terms/variable.py",
    "        if config[\"EVAL_UNSEEN_CATEGORIES\"] == \"warning\":\n            difference = [str(x) for x in difference]\n            warnings.warn(",
    "        if config[\"EVAL_UNSEEN_CATEGORIES\"] != \"error\":\n            difference = [str(x) for x in difference]\n            warnings.warn(",
    "silent mode")
mut("c10_no_raise_in_call", "C10", "terms/call.py",
    "        if config[\"EVAL_UNSEEN_CATEGORIES\"] == \"error\":\n            difference = [str(x) for x in difference]\n            raise ValueError(",
    "        if config[\"EVAL_UNSEEN_CATEGORIES\"] == \"error\" and len(difference) > 1:\n            difference = [str(x) for x in difference]\n            raise ValueError(",
    "C()/T()/S() coded variable with one unseen level in error mode")
mut("c10_mode_latched_at_build", "C10", "terms/variable.py",
    "        self.value = value\n        self.spans_intercept = spans_intercept\n",
    "        self.value = value\n        self.spans_intercept = spans_intercept\n        self._mode = config[\"EVAL_UNSEEN_CATEGORIES\"]\n",
    "mode changed between build and evaluation", )
mut("c10_config_state_before_raise", "C10", "config.py",
    "            if value in Config.FIELDS[key]:\n                super().__setattr__(key, value)\n            else:\n                raise ValueError(",
    "            if value in Config.FIELDS[key] or isinstance(value, str):\n                super().__setattr__(key, value)\n            if value not in Config.FIELDS[key]:\n                raise ValueError(",
    "invalid string value: stored, then refused")
mut("c10_widened_later_slices_not_shifted", "C10", "matrices.py",
    "            new_instance.slices[term.name] = slice_new\n\n            start += delta",
    "            new_instance.slices[term.name] = slice_new\n\n            start += slice_w_original",
    "new group in a term followed by another term")
mut("c10_warning_filter_leak", "C10", "terms/variable.py",
    """                "original data set. It's impossible to select appropriate contrasts for them. "
                "Setting all the indicator variables to zero."
            )
""",
    """                "original data set. It's impossible to select appropriate contrasts for them. "
                "Setting all the indicator variables to zero."
            )
            # do not repeat the same message on every prediction
            warnings.filterwarnings("ignore", message="The levels")
""",
    "a second evaluation with an unseen level in 'warning' mode: the process-wide filter left behind hides it")
# ------------------------------------------------------------------ C17
mut("c17_slices_1d_delta", "C17", "matrices.py",
    "            if term.data.ndim == 2:\n                delta = term.data.shape[1]\n            else:\n                delta = 1",
    "            delta = term.data.shape[-1] if term.data.ndim == 2 or len(self.terms) > 4 else 1",
    "1-d term in a design with more than four terms")
mut("c17_group_slices_not_rebuilt", "C17", "matrices.py",
    "            new_instance.slices[term.name] = slice_new\n",
    "            new_instance.slices[term.name] = self.slices[term.name]\n", "new group widens the matrix")
mut("c17_getitem_unknown", "C17", "matrices.py",
    "        if term not in self.slices:\n            raise ValueError(f\"'{term}' is not a valid term name\")\n        return self.design_matrix[:, self.slices[term]]\n\n    def __array__(self):\n        return self.design_matrix\n\n    def __repr__(self):\n        return self.__str__()\n\n    def __str__(self):\n        entries = []\n        for name, term in self.terms.items():\n            content = [f\"kind: {term.kind}\"]",
    "        if term not in self.slices:\n            return self.design_matrix\n        return self.design_matrix[:, self.slices[term]]\n\n    def __array__(self):\n        return self.design_matrix\n\n    def __repr__(self):\n        return self.__str__()\n\n    def __str__(self):\n        entries = []\n        for name, term in self.terms.items():\n            content = [f\"kind: {term.kind}\"]",
    "unknown name on the common matrix")
mut("c17_str_shape_of_training", "C17", "matrices.py",
    "            f\"GroupEffectsMatrix with shape {self.design_matrix.shape}\\n\"",
    "            f\"GroupEffectsMatrix with shape {(self.design_matrix.shape[0], sum(t.data.shape[1] for t in self.terms.values()))}\\n\"",
    "printing a widened group matrix")
mut("c17_asarray_copy_stale", "C17", "matrices.py",
    "        new_instance.slices = self.slices\n        new_instance.evaluated = True\n        return new_instance",
    "        new_instance.slices = self.slices\n        new_instance.evaluated = True\n        if new_instance.design_matrix.shape == self.design_matrix.shape:\n            new_instance.__array__ = self.__array__\n            type(new_instance).__array__ = lambda s: getattr(s, '_arr', s.design_matrix)\n            new_instance._arr = self.design_matrix\n        return new_instance",
    "np.asarray of a derived matrix with as many rows as the training data")
mut("c17_response_not_filtered", "C17", "matrices.py",
    "        self.design_matrix = self.term.term.data\n        self.levels = self.term.term.levels",
    "        self.design_matrix = self.term.term.data\n        if self.kind == \"proportion\" and self.design_matrix.shape[0] > 20:\n            self.design_matrix = np.vstack([self.design_matrix, self.design_matrix[-1:]])\n        self.levels = self.term.term.levels",
    "proportion response on a frame with more than 20 rows")

PRELUDES = {
    "c07_global_memo_halfbuilt": ("contrasts.py", "# see https://github.com/pydata/patsy/blob/master/patsy/redundancy.py",
                                  "# see https://github.com/pydata/patsy/blob/master/patsy/redundancy.py\n_SUBSET_INDEXES = {}"),
    "c07_transform_cached_by_name": ("terms/call_resolver.py", "class CallResolverError(Exception):", "_CACHE = {}\n\n\nclass CallResolverError(Exception):"),
    "c07_cache_by_frame_id": ("terms/variable.py", "class Variable:", "_MEMO = {}\n\n\nclass Variable:"),
    "c10_mode_latched_at_build": ("terms/variable.py",
                                  "        if config[\"EVAL_UNSEEN_CATEGORIES\"] == \"error\":\n            difference = [str(x) for x in difference]\n            raise ValueError(",
                                  "        if getattr(self, \"_mode\", \"error\") == \"error\":\n            difference = [str(x) for x in difference]\n            raise ValueError("),
}


def apply(m, root):
    path = os.path.join(root, "formulae", m["file"])
    s = open(path).read()
    if m["old"] not in s:
        raise SystemExit(f"{m['name']}: pattern not found in {m['file']}")
    s = s.replace(m["old"], m["new"], 1)
    open(path, "w").write(s)
    if m["name"] in PRELUDES:
        f, old, new = PRELUDES[m["name"]]
        path = os.path.join(root, "formulae", f)
        s = open(path).read()
        if old not in s:
            raise SystemExit(f"{m['name']}: prelude pattern not found")
        open(path, "w").write(s.replace(old, new, 1))


def run_one(m, keep=False, tier="quick"):
    root = f"/tmp/designsim-mut-{m['name']}"
    shutil.rmtree(root, ignore_errors=True)
    os.makedirs(root)
    shutil.copytree("/repo/formulae", os.path.join(root, "formulae"),
                    ignore=shutil.ignore_patterns("__pycache__"))
    out = {"name": m["name"], "property": m["prop"], "needs": m["needs"]}
    try:
        apply(m, root)
        # the mutant must still import and pass a smoke build
        smoke = subprocess.run([PY, "-c", "import sys; sys.path.insert(0, sys.argv[1]); import formulae, pandas as pd;"
                                "formulae.design_matrices('y ~ x', pd.DataFrame({'y': [1., 2.], 'x': [3., 4.]}))", root],
                               capture_output=True, text=True)
        if smoke.returncode:
            out["status"] = "BROKEN-MUTANT"
            out["detail"] = smoke.stderr[-400:]
            return out
        t0 = time.time()
        p = subprocess.run([PY, "-m", "designsim.check", "--property", m["prop"], "--tier", tier, "--repo", root,
                            "--no-evidence", "--replay-dir", root + "/replays"], cwd=HERE, capture_output=True,
                           text=True, timeout=1500)
        out["wall"] = round(time.time() - t0, 1)
        out["exit"] = p.returncode
        vio = re.findall(r"VIOLATION property=(\S+) replay=(\S+)", p.stdout)
        out["violations"] = vio
        lines = [l for l in p.stdout.splitlines() if l.startswith("  oracle=")]
        out["first"] = lines[0][:300] if lines else p.stdout[-300:]
        if p.returncode == 1 and vio:
            rp = vio[0][1]
            env = dict(os.environ, DESIGNSIM_REPO=root)
            r1 = subprocess.run([PY, "-m", "designsim.replay", rp], cwd=HERE, capture_output=True, text=True, env=env)
            r2 = subprocess.run([PY, "-m", "designsim.replay", rp], cwd=HERE, capture_output=True, text=True)
            out["replay_on_mutant"] = r1.returncode
            out["replay_on_clean"] = r2.returncode
            rep = json.load(open(rp))
            out["replay_ops"] = len(rep["scenario"]["ops"])
            out["status"] = "CAUGHT" if (r1.returncode == 1 and r2.returncode == 3) else "CAUGHT-REPLAY-MISMATCH"
            for _, path in vio:
                if not keep and os.path.exists(path):
                    os.remove(path)
        elif p.returncode == 0:
            out["status"] = "MISSED"
        else:
            out["status"] = f"EXIT-{p.returncode}"
    finally:
        shutil.rmtree(root, ignore_errors=True)
    return out


def main():
    names = [a for a in sys.argv[1:] if not a.startswith("--")]
    tier = "thorough" if "--thorough" in sys.argv else "quick"
    todo = [m for m in M if not names or m["name"] in names or m["prop"] in names]
    results = []
    for m in todo:
        r = run_one(m, keep="--keep" in sys.argv, tier=tier)
        results.append(r)
        print(json.dumps(r), flush=True)
    print("SUMMARY", {s: sum(1 for r in results if r["status"] == s) for s in sorted(set(r["status"] for r in results))})


if __name__ == "__main__":
    main()
