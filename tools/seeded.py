"""Seeded breaking changes written by independent sub-agents (they saw only the
property text and a scratch worktree, nothing from /verif).

    python tools/seeded.py ingest <id> <property> <agent-worktree>   # confirm + store under seeded/<id>/
    python tools/seeded.py run <id> [...] [--tier quick|thorough] [--all-props]   # run my checks against it

Confirmation = in a fresh scratch worktree of /repo HEAD: patch applies, the
unedited test suite still has exactly the baseline result (135 passed, the 2
baseline failures), the demonstration exits 1 with the change and 0 without.
Nothing is ever applied to /repo itself here; checks run against a scratch copy
through --repo (same code path as the default /repo, other root).
"""
import json
import os
import re
import shutil
import subprocess
import sys
import time

HERE = os.path.dirname(os.path.dirname(os.path.abspath(__file__)))
PY = sys.executable
SEEDED = os.path.join(HERE, "seeded")


def sh(cmd, **kw):
    return subprocess.run(cmd, shell=isinstance(cmd, str), capture_output=True, text=True, **kw)


def ingest(name, prop, wt):
    dst = os.path.join(SEEDED, name)
    os.makedirs(dst, exist_ok=True)
    for f in ("patch.diff", "README.md"):
        shutil.copy(os.path.join(wt, "SEED", f), os.path.join(dst, f))
    demo = open(os.path.join(wt, "SEED", "demo.py")).read()
    demo = demo.replace(f'"{wt}"', 'os.environ.get("SEED_TREE", "/repo")').replace(
        f"'{wt}'", 'os.environ.get("SEED_TREE", "/repo")')
    demo = demo.replace(f'"{wt}/"', '(os.environ.get("SEED_TREE", "/repo") + "/")')
    demo = demo.replace(wt, "/repo")
    # (the path may sit inside the source text of a subprocess that does not import os)
    demo = demo.replace('os.environ.get("SEED_TREE", "/repo")', '__import__("os").environ.get("SEED_TREE", "/repo")')
    demo = "import os\n" + demo
    open(os.path.join(dst, "demo.py"), "w").write(demo)
    chk = f"/tmp/seedchk-{name}"
    sh(f"git -C /repo worktree remove --force {chk}")
    r = sh(f"git -C /repo worktree add -q {chk} HEAD")
    meta = {"id": name, "property": prop, "base_commit": sh("git -C /repo rev-parse --short HEAD").stdout.strip()}
    try:
        env = dict(os.environ, SEED_TREE=chk)
        d0 = sh([PY, os.path.join(dst, "demo.py")], cwd=chk, env=env)
        a = sh(f"git -C {chk} apply {dst}/patch.diff")
        meta["patch_applies"] = a.returncode == 0
        t = sh([PY, "-m", "pytest", "-q", "-p", "no:cacheprovider", "--timeout=900"], cwd=chk)
        tail = t.stdout.strip().splitlines()[-1] if t.stdout.strip() else ""
        meta["tests_with_change"] = tail
        failed = sorted(set(re.findall(r"FAILED (\S+)", t.stdout)))
        meta["tests_failed_with_change"] = failed
        d1 = sh([PY, os.path.join(dst, "demo.py")], cwd=chk, env=env)
        meta["demo_exit_unchanged"] = d0.returncode
        meta["demo_exit_changed"] = d1.returncode
        meta["demo_output_changed"] = (d1.stdout + d1.stderr)[-600:]
        meta["files_touched"] = sh(f"git -C {chk} diff --stat").stdout.strip().splitlines()[:-1]
        ok = (meta["patch_applies"] and d0.returncode == 0 and d1.returncode == 1
              and set(failed) <= {"tests/test_poly.py::test_basic", "tests/test_poly.py::test_degree"}
              and "135 passed" in tail)
        meta["confirmed"] = bool(ok)
    finally:
        sh(f"git -C /repo worktree remove --force {chk}")
    readme = open(os.path.join(dst, "README.md")).read()
    meta["needs"] = readme[:1500]
    meta["what_i_ran"] = [
        f"git -C /repo worktree add /tmp/seedchk-{name} HEAD; demo.py on the unchanged tree -> exit {meta.get('demo_exit_unchanged')}",
        f"git apply patch.diff; /venv/bin/python -m pytest -q -p no:cacheprovider -> {meta.get('tests_with_change')}",
        f"demo.py on the changed tree -> exit {meta.get('demo_exit_changed')}",
    ]
    json.dump(meta, open(os.path.join(dst, "meta.json"), "w"), indent=1)
    print(json.dumps({k: meta[k] for k in ("id", "property", "confirmed", "tests_with_change", "demo_exit_unchanged",
                                            "demo_exit_changed")}))
    return meta


def run(name, tier="quick", props=None, keep=False):
    dst = os.path.join(SEEDED, name)
    meta = json.load(open(os.path.join(dst, "meta.json")))
    root = f"/tmp/designsim-seed-{name}"
    shutil.rmtree(root, ignore_errors=True)
    os.makedirs(root)
    shutil.copytree("/repo/formulae", os.path.join(root, "formulae"), ignore=shutil.ignore_patterns("__pycache__"))
    out = {}
    try:
        a = sh(f"patch -p1 -d {root} < {dst}/patch.diff")
        if a.returncode:
            print("patch failed", a.stdout, a.stderr)
            return None
        for prop in props or [meta["property"]]:
            t0 = time.time()
            p = sh([PY, "-m", "designsim.check", "--property", prop, "--tier", tier, "--repo", root, "--no-evidence",
                    "--replay-dir", root + "/replays"], cwd=HERE, timeout=7200)
            vio = re.findall(r"VIOLATION property=(\S+) replay=(\S+)", p.stdout)
            res = {"exit": p.returncode, "wall": round(time.time() - t0, 1), "tier": tier,
                   "violations": [l.strip()[:400] for l in p.stdout.splitlines() if l.startswith("  oracle=")][:3]}
            if p.returncode == 1 and vio:
                rp = vio[0][1]
                r1 = sh([PY, "-m", "designsim.replay", rp], cwd=HERE, env=dict(os.environ, DESIGNSIM_REPO=root))
                r2 = sh([PY, "-m", "designsim.replay", rp], cwd=HERE)
                res["replay_on_changed"] = r1.returncode
                res["replay_on_unchanged"] = r2.returncode
                res["replay_ops"] = len(json.load(open(rp))["scenario"]["ops"])
                res["detected"] = r1.returncode == 1 and r2.returncode == 3
                if keep:
                    shutil.copy(rp, os.path.join(dst, f"replay-{prop}.json"))
                for _, path in vio:
                    if os.path.exists(path):
                        os.remove(path)
            else:
                res["detected"] = False
                if p.returncode not in (0, 1):
                    res["output_tail"] = p.stdout[-500:]
            out[prop] = res
            print(name, prop, json.dumps(res), flush=True)
    finally:
        shutil.rmtree(root, ignore_errors=True)
    meta.setdefault("checks", {})
    for prop, res in out.items():
        meta["checks"][f"{prop}:{tier}:seed{os.environ.get('VERIF_SEED', '0') or '0'}"] = res
    json.dump(meta, open(os.path.join(dst, "meta.json"), "w"), indent=1)
    return out


def main():
    cmd = sys.argv[1]
    if cmd == "ingest":
        ingest(sys.argv[2], sys.argv[3], sys.argv[4])
    elif cmd == "run":
        args = [a for a in sys.argv[2:] if not a.startswith("--")]
        tier = "thorough" if "--thorough" in sys.argv else "quick"
        names = args or sorted(os.listdir(SEEDED))
        for n in names:
            if not os.path.exists(os.path.join(SEEDED, n, "meta.json")):
                continue
            props = ["C06", "C07", "C10", "C17"] if "--all-props" in sys.argv else None
            run(n, tier, props, keep="--keep" in sys.argv)


if __name__ == "__main__":
    main()
