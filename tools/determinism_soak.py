"""Determinism soak: N run seeds per property executed in two different pools (16 workers under one
hash seed, 7 workers under 7 other hash seeds); every chained digest (structure and exact numbers) must
agree.  Prints one line per property; exit 1 on any divergence.

    python tools/determinism_soak.py [N]
"""
import os
import sys
import time

sys.path.insert(0, os.path.dirname(os.path.dirname(os.path.abspath(__file__))))
from designsim.explore import explore, hashseeds_for, run_seeds  # noqa: E402
from designsim.pool import Pool  # noqa: E402

n = int(sys.argv[1]) if len(sys.argv) > 1 else 600
bad = 0
for prop in ("C06", "C07", "C10", "C17"):
    seeds = run_seeds(prop, "quick", 4242, n)
    t = time.time()
    a = Pool(16, hashseeds_for(1, 1))
    try:
        ra = explore(a, prop, "quick", seeds, sample_first=0, prefix="a")
    finally:
        a.close()
    b = Pool(7, hashseeds_for(2, 7))
    try:
        rb = explore(b, prop, "quick", seeds, sample_first=0, prefix="b")
    finally:
        b.close()
    div = [s for s, x, y in zip(seeds, ra, rb)
           if "harness_error" in x or "harness_error" in y or (x["digest"], x["ndigest"]) != (y["digest"], y["ndigest"])]
    viol = sum(1 for x in ra if x.get("violation"))
    bad += len(div)
    print(f"{prop}: {n} seeds x 2 executions, divergent={len(div)} violations={viol} wall={time.time() - t:.0f}s "
          f"{div[:3]}", flush=True)
sys.exit(1 if bad else 0)
