"""Run every regression scenario against a repo tree (default /repo) and print the outcome."""
import glob
import json
import os
import sys

sys.path.insert(0, os.path.dirname(os.path.dirname(os.path.abspath(__file__))))
from designsim.pool import Pool  # noqa: E402

repo = sys.argv[1] if len(sys.argv) > 1 else None
pool = Pool(8, [11], repo=repo)
jobs = []
for i, f in enumerate(sorted(glob.glob(os.path.join(os.path.dirname(__file__), "..", "regressions", "*.json")))):
    rep = json.load(open(f))
    jobs.append({"kind": "scenario", "job_id": os.path.basename(f), "scenario": rep["scenario"], "oracles": rep["oracles"]})
res = pool.map(jobs)
pool.close()
for j in jobs:
    r = res[j["job_id"]]
    if "harness_error" in r:
        print(j["job_id"], "HARNESS", r["harness_error"], r.get("trace", "")[-500:])
        continue
    v = r["violation"]
    print(f"{j['job_id']:34s}", "ok" if v is None else f"VIOLATION {v['oracle']}/{v['kind']}/{v['key']} step={v['step']}: {v['detail'][:150]}")
